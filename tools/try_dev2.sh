#!/bin/bash
# like try_dev.sh on a second scratch tree
d=/verif/seeded/$1; prop=$2
cd /tmp/mut/dev2 && git checkout -q -- . && git apply $d/patch.diff || { echo "apply failed"; exit 9; }
cd /verif && TUCAN_REPO=/tmp/mut/dev2 timeout 3000 /venv/bin/python harness/check.py --property $prop --tier quick > /tmp/trydev2_$prop.out 2>&1; rc=$?
cd /tmp/mut/dev2 && git checkout -q -- . && git clean -qfd tucan
echo "rc=$rc"; grep -E "VIOLATION|MACHINERY" /tmp/trydev2_$prop.out | cut -c1-260 | head -3; tail -1 /tmp/trydev2_$prop.out | cut -c1-160
