#!/usr/bin/env python3
import subprocess, re
m = subprocess.run(["python3", "/verif/tools/matrix.py"], capture_output=True, text=True).stdout
p = "/verif/DESIGN.md"
s = open(p).read()
i, j = s.index("<!-- MATRIX-BEGIN -->"), s.index("<!-- MATRIX-END -->")
s = s[:i] + "<!-- MATRIX-BEGIN -->\n" + m + s[j:]
open(p, "w").write(s)
print(m.splitlines()[-1])
