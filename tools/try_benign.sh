#!/bin/bash
# usage: try_benign.sh <name> <PROP>...   -- applies a property-preserving change to the scratch tree and runs the checks: all must exit 0
name=$1; shift
cd /tmp/mut/dev && git checkout -q -- . && git apply /verif/seeded-benign/$name/patch.diff || { echo "apply failed"; exit 9; }
for prop in "$@"; do
  cd /verif && TUCAN_REPO=/tmp/mut/dev timeout 3000 /venv/bin/python harness/check.py --property $prop --tier quick > /tmp/benign_$prop.out 2>&1; rc=$?
  echo "$name $prop rc=$rc $(grep -cE '^NOTE' /tmp/benign_$prop.out) notes; $(grep -E 'VIOLATION|MACHINERY' /tmp/benign_$prop.out | head -2 | cut -c1-200)"
done
cd /tmp/mut/dev && git checkout -q -- . && git clean -qfd tucan
