#!/usr/bin/env python3
"""Prints the seeded-change / check matrix (markdown) from seeded/*/meta.json and result.json."""
import json, os
SEED = "/verif/seeded"
rows = []
for name in sorted(os.listdir(SEED)):
    d = os.path.join(SEED, name)
    try:
        meta = json.load(open(d + "/meta.json"))
    except Exception:
        continue
    res = json.load(open(d + "/result.json")) if os.path.exists(d + "/result.json") else {}
    own = meta["breaks"]
    det = [p for p, r in res.items() if r.get("rc") == 1]
    miss = [p for p, r in res.items() if r.get("rc") == 0]
    err = [p for p, r in res.items() if r.get("rc") not in (0, 1)]
    clause = ""
    if own in res and res[own].get("first"):
        f = res[own]["first"]
        clause = f[f.find("[") + 1:f.find("]")][:70] if "[" in f else ""
    rows.append((name, own, ", ".join(det) or "-", ", ".join(miss) or "", ", ".join(err), meta.get("summary", "")[:110].replace("|", "/").replace("\n", " "), clause))
print("| change | breaks | caught by | missed by | what it does | first clause reported |")
print("|---|---|---|---|---|---|")
for r in rows:
    print(f"| {r[0]} | {r[1]} | {r[2]}{' (error: ' + r[4] + ')' if r[4] else ''} | {r[3]} | {r[5]} | {r[6]} |")
n = len(rows); c = sum(1 for r in rows if r[1] in r[2].split(", "))
print(f"\n{c} of {n} seeded changes are reported by the check of the property they were written to break; "
      f"{sum(1 for r in rows if r[2] != '-')} by at least one check.")
