#!/usr/bin/env python3
"""Writes /verif/MANIFEST.json from the table below (keeps the file valid and in one place)."""
import json, os
V = os.path.normpath(os.path.join(os.path.dirname(os.path.abspath(__file__)), ".."))
props = [json.loads(l) for l in open(os.path.join(V, "properties.jsonl"))]
PY = "/venv/bin/python harness/check.py"
TB = ("trusted base: TLC; the projection harness/project.py and the recorder harness/record.py (what was called with what and returned what); the "
      "drivers' claims are re-checked by the specification (relabellings, same-molecule texts, respellings, witnesses, automorphisms); bliss/igraph is an "
      "assumed environment (contract in spec/Bliss.tla); design instances are bounded (3 atoms quick, 4 thorough; small text / thread / size instances); "
      "float(), int(), str.splitlines() and the ANTLR runtime are outside the model")
CLAIMED = {
 "C01": ("TLC bounded model of the whole pipeline (MC_Tucan) + TLC trace validation of recorded sessions (Trace_Tucan): string registry per verified-same-molecule class",
         "All labelled molecules up to 3 (thorough: 4) atoms x relabelling generators are model-checked on the specification's own algorithms; the same inputs (spec->code) and seeded random / symmetric / corpus molecules with relabelled, reordered, re-oriented descriptions (code->spec) are run through the real library and every event is validated by TLC; a string that differs inside a class of verified derivations is a violation.", "§4 C01"),
 "C02": ("TLC bounded model + trace validation: shared string between molecules TLC tells apart (enumeration <=6 atoms, colour/bond counts) and witness check against the spec's own reading of the string",
         "Groups of different molecules with equal formula (all TLC-enumerated small molecules; near-miss variants: edge switches, moved / dropped labels; in-place edits between calls) are serialized by the real code; TLC decides non-isomorphism and checks that each string reconstructs its own molecule.", "§4 C02"),
 "C03": ("TLC bounded model + trace validation: spec-side Denote(string) isomorphic to the molecule via TLC-checked witness; fixed point via provenance of parsed graphs",
         "Every emitted string is read by the specification's character-level reference reader and matched against the molecule handed to the pipeline; the parsed-back graph must be that molecule and must serialize to the same string.", "§4 C03"),
 "C04": ("TLC bounded model (bliss contract) + trace validation: registry of labelled canonical graphs per class",
         "Canonical graphs of all descriptions of one molecule (relabelled, reordered, canonical output fed back, stale partition values, disjoint unions in both orders) must be equal as labelled graphs (element, mass, radical, class, bonds).", "§4 C04"),
 "C05": ("TLC bounded model + trace validation with the specification's character-level recognizer and layout rules on every emitted string",
         "Grammar membership and the canonical layout (Hill formula = element counts, bonds once / a<b / ascending, attribute blocks once per labelled atom ascending, positive values) are judged by spec/Grammar.tla + LayoutClauses on strings for formula-stress molecules (118 elements, counts >= 10, prefix-sharing symbols, both attributes).", "§4 C05"),
 "C12": ("TLC bounded model + trace validation: renaming read off unique tags and applied by the spec; argument snapshots before/after; repeated-call histories",
         "canonicalize_molecule's result must equal the argument under the tag-derived bijection for all atom and bond attributes; arguments of canonicalize / serialize are snapshotted before and after; repeated calls, in-place edits and same-skeleton drawings in one session expose caches.", "§4 C12"),
 "C13": ("TLC bounded model (equitable, colour-homogeneous, orbit-respecting for all small molecules) + trace validation in property mode and round-by-round refinement mode",
         "The four predicates are evaluated by TLC on the implementation's partition attribute (atoms traced through tags; automorphisms by enumeration <=6 atoms and constructed+verified beyond), and every intermediate partition is compared with spec/Refine.tla up to RLimit atoms.", "§4 C13"),
 "C06": ("TLC decodes paired molfile texts with the reference decoders (MolV3000/MolV2000), verifies they state the same atoms and bonded pairs, then compares the pipeline strings (trace validation); bounded models of both renderers",
         "Pairs / triples of molfile texts of one molecule differing only in coordinates, bond types, charges, headers, index values, keywords, trailing blocks, line endings and V2000-vs-V3000 are read and pushed through the real pipeline; the pairing is verified by the specification on the decoded molecules, never on the reader's output.", "§4 C06"),
 "C07": ("TLC bounded model Decode(Render(M,c)) = M over the V3000 spelling space + spec->code replay of every rendered text + trace validation of seeded spellings and corpus files against the character-level reference decoder",
         "The reader's graph is compared attribute by attribute (element, order, charge, radical, mass, coordinates, bonds, bond types) with what spec/MolV3000.tla decodes from the same text, for continuation dashes at every offset, blank runs, property orders, index maps, extra keywords, star atoms with ENDPTS, explicit defaults (presence-sensitive pair comparison), CRLF.", "§4 C07"),
 "C08": ("TLC bounded model of the V2000 encodings (charge codes / property lines / stale codes / grouping / zero entries / D,T with ISO) + spec->code replay + trace validation with paired V3000 renderings",
         "The V2000 reader's graph equals the reference decoding and the paired V3000 reading; both get the same TUCAN string.", "§4 C08"),
 "C09": ("TLC bounded model of the 71+dash wrap (every length 0..300, probe characters at the cut columns) + trace validation: every written text is decoded by the specification and compared with the graph; read-back by the real reader; round-trip strings",
         "Line length, well-formedness, atoms in listing order with element / charge / radical / mass / six-decimal coordinates, bonds with types, for graphs whose line lengths are steered across the wrap columns (once, twice, three times) and for graphs not listed in label order.", "§4 C09"),
 "C10": ("TLC bounded model of the single-token edit neighbourhood judged by the EBNF reference reader (Grammar.tla) + spec->code replay of every enumerated string + trace validation of structured / character-level edits and parse histories",
         "Accept / reject, the exception type and the returned graph (atoms by increasing atomic number, bond set, attributes) of the real parser are compared by TLC with Denote(s) for every string of the enumerated neighbourhoods and for seeded edits of library-emitted strings, including re-parsing after the returned graph was edited in place.", "§4 C10"),
 "C11": ("TLC bounded model of respelling walks (molecule kept, normal form reached, all by the specification incl. the bliss contract) + spec->code replay + trace validation of seeded respelling walks on library strings",
         "Each respelling is verified by TLC on the denotations through its index map; the real parse -> canonicalize -> serialize must return one string per class of verified respellings, and applying it twice must change nothing.", "§4 C11"),
 "C14": ("TLC model of concurrent callers (Threads.tla: serialize / canonicalize / parse steps over explicitly shared variables, negative controls for each sharing deviation) + trace validation of a registry 'same operation, same input, same result' over processes (PYTHONHASHSEED x call orders), free-running threads on private and shared objects, and deterministic one-preemption schedules",
         "Every interleaving of 2-3 modelled callers returns the sequential results; results of the real operations over one workload collected under different hash seeds, shuffled / repeated call orders, concurrent threads and enumerated preemption points are validated by TLC against the registry.", "§4 C14"),
 "C15": ("TLC bounded model of termination / stack depth (Size.tla: all graphs with 5-6 atoms, StackLimit control) + event-level trace validation at real sizes with a measured stack-depth growth probe",
         "Scaled-down decision by TLC (round bound, no crash state, BFS assigns n labels); at real sizes (hundreds to thousands of atoms of the named families) the pipeline's normal return with unchanged counts is validated at event level; a stack depth that grows with the size is followed up by running the predicted failing size.", "§4 C15"),
 "C16": ("TLC bounded model of the shuffle / retry loop with an abstract random source (Permute.tla, all graphs with 4-5 atoms) + trace validation of permute_molecule calls (tags, snapshots, seed registry)",
         "The returned graph must be the argument under the tag-derived bijection with all atom and bond data, listed in label order, argument untouched, same result for the same seed whatever else used the global generator, edge set changed when enforcement applies; arguments include canonical graphs (not listed in label order).", "§4 C16"),
}
checks = []
for p in props:
    pid = p["id"]
    if pid not in CLAIMED:
        continue
    tech, text, ref = CLAIMED[pid]
    checks.append({"property_id": pid, "quick_cmd": f"{PY} --property {pid} --tier quick",
                   "thorough_cmd": f"{PY} --property {pid} --tier thorough",
                   "evidence_file": f"/verif/evidence/{pid}.json",
                   "replay_cmd_template": f"{PY} --property {pid} --replay {{path}}",
                   "engine": "tlc-tucan",
                   "level_claimed": {"category": "model_checking", "text": text, "design_ref": ref},
                   "level_note": TB, "technique": tech})
m = {"version": 1,
     "setup_cmd": "/venv/bin/python harness/setup_check.py",
     "hooks": {"guard": "TUCAN_VERIF",
               "enable": "TUCAN_VERIF=1 in the environment of the harness process; recorders wrap module-level functions of tucan from outside (no in-source hooks)",
               "baseline_off_cmd": "cd /repo && /venv/bin/python -m pytest -ra -q -p no:cacheprovider --timeout=900 --continue-on-collection-errors",
               "source_commits": [], "add_only": True},
     "engines": [{"name": "tlc-tucan", "path": "/verif/harness/check.py", "serves_properties": [c["property_id"] for c in checks],
                  "kind_free_text": "TLA+ specification (spec/*.tla) checked by TLC: bounded models + validation of traces recorded from the real library + replay of TLC-enumerated inputs into it"}],
     "checks": checks,
     "notes": ("See DESIGN.md (section 8 = as built). known_findings.json: seven repaired defects (fix: commits in /repo) and one open finding KF1 "
               "(numbers of more than 4300 digits in TUCAN strings; printed as KNOWN-FINDING by the C10 check). setup_cmd = SANY on all modules + a "
               "binding self-test on committed fixtures (no access to /repo). seeded/ holds 98 confirmed breaking changes with the observed check results, "
               "seeded-benign/ six property-preserving refactors that no check may report."),
     "not_applicable": [{"property_id": p["id"], "reason": "check under construction in this build phase (specification module and harness not committed yet); to be claimed"}
                        for p in props if p["id"] not in CLAIMED]}
json.dump(m, open(os.path.join(V, "MANIFEST.json"), "w"), indent=1)
print("claimed", len(checks), "not yet", len(m["not_applicable"]))
