#!/bin/bash
# usage: try_round.sh <PID> [k] -- confirms the sub-agent change /tmp/mut/out/<PID>/patch<k>.diff in its own scratch worktree
# /tmp/mut/r8/<PID> (demo passes on the clean tree, suite passes with the change, demo fails with it) and then runs the quick check of
# <PID> from the harness snapshot /tmp/mut/vsnap against that worktree (so neither /repo nor /verif/evidence is touched).
pid=$1; k=${2:-1}; WT=/tmp/mut/r8/$pid; O=/tmp/mut/out/$pid; SNAP=${SNAP:-/tmp/mut/vsnap}
cd $WT && git checkout -q -- . && git clean -qfd || exit 9
cp $O/demo$k.py $WT/_demo.py
clean_rc=$(cd $WT && PYTHONPATH=$WT timeout 600 /venv/bin/python _demo.py >/dev/null 2>&1; echo $?)
git apply $O/patch$k.diff || { echo "$pid $k APPLY-FAIL"; exit 9; }
suite=$(cd $WT && PYTHONPATH=$WT timeout 900 /venv/bin/python -m pytest -q -p no:cacheprovider --timeout=900 -n 6 2>&1 | tail -1)
mut_rc=$(cd $WT && PYTHONPATH=$WT timeout 600 /venv/bin/python _demo.py >/dev/null 2>&1; echo $?)
echo "$pid $k clean_demo_rc=$clean_rc mutant_demo_rc=$mut_rc suite=[$suite]" | tee -a /tmp/mut/confirm.log
rm -f $WT/_demo.py
for p in $pid $EXTRA; do
  t0=$(date +%s)
  (cd $SNAP && TUCAN_REPO=$WT timeout 1500 /venv/bin/python harness/check.py --property $p --tier quick > /tmp/mut/out/$pid/check${k}_$p.out 2>&1; echo "rc=$?" >> /tmp/mut/out/$pid/check${k}_$p.out)
  echo "$pid $k check $p: $(tail -1 /tmp/mut/out/$pid/check${k}_$p.out) wall=$(( $(date +%s) - t0 ))s $(grep -m1 VIOLATION /tmp/mut/out/$pid/check${k}_$p.out | cut -c1-220)"
done
cd $WT && git checkout -q -- . && git clean -qfd
