#!/usr/bin/env python3
"""Copies the confirmed sub-agent mutants from /tmp/mut/out into /verif/seeded/<property>-<k>/ (patch.diff, demo.py, meta.json)
and creates the 'revert of a fix' mutants F1..F7."""
import json, os, re, shutil, subprocess
OUT = "/tmp/mut/out"; SEED = "/verif/seeded"
conf = {}
for l in open("/tmp/mut/confirm.log"):
    m = re.match(r"(C\d+) (\d) clean_demo_rc=(\d+) mutant_demo_rc=(\d+) suite=\[(.*)\]", l)
    if m:
        conf[(m.group(1), int(m.group(2)))] = {"clean_demo_rc": int(m.group(3)), "mutant_demo_rc": int(m.group(4)), "suite_with_patch": m.group(5).strip("= ")}
for (pid, k), c in sorted(conf.items()):
    ok = c["clean_demo_rc"] == 0 and c["mutant_demo_rc"] != 0 and "1685 passed" in c["suite_with_patch"] and "failed" not in c["suite_with_patch"]
    d = os.path.join(SEED, f"{pid}-{k}")
    if not ok:
        print("NOT CONFIRMED", pid, k, c); continue
    os.makedirs(d, exist_ok=True)
    shutil.copy(f"{OUT}/{pid}/patch{k}.diff", d + "/patch.diff")
    shutil.copy(f"{OUT}/{pid}/demo{k}.py", d + "/demo.py")
    meta = json.load(open(f"{OUT}/{pid}/meta{k}.json"))
    meta.update({"breaks": pid, "origin": "independent sub-agent (given only the property text and a scratch worktree)",
                 "confirmed": {"what_i_ran": "tools/confirm_mutants.sh in a scratch worktree: demo on the clean tree, git apply, full pytest suite, demo on the patched tree", **c}})
    json.dump(meta, open(d + "/meta.json", "w"), indent=1)
fixes = {"F1": ("df9ec37", "C01", "igraph convention: zip(old labels, canonical_permutation())"), "F2": ("e92a11d", "C07", "V3000 explicit defaults stored"),
         "F3": ("a54f556", "C07", "substring keyword match (EXACHG read as CHG)"), "F4": ("0aed2d0", "C08", "M  ISO clears D/T masses"),
         "F5": ("be60dc6", "C15", "refine_partitions recursion"), "F6": ("93c46a6", "C14", "EXPLORED flags on the argument graph"),
         "F7": ("a0c4300", "C08", "zero-valued M  CHG / M  RAD entries stored")}
for name, (commit, pid, what) in fixes.items():
    subprocess.run(["git", "-C", "/repo", "revert", "--no-commit", commit], check=True, capture_output=True)
    diff = subprocess.run(["git", "-C", "/repo", "diff", "HEAD"], capture_output=True, text=True).stdout
    subprocess.run(["git", "-C", "/repo", "revert", "--abort"], capture_output=True)
    subprocess.run(["git", "-C", "/repo", "reset", "-q", "--hard", "HEAD"], check=True)
    d = os.path.join(SEED, f"{name}-revert")
    os.makedirs(d, exist_ok=True)
    open(d + "/patch.diff", "w").write(diff)
    json.dump({"breaks": pid, "summary": f"revert of fix commit {commit}: {what}", "needs": "see known_findings.json", "origin": "the defect found on the pinned tree"},
              open(d + "/meta.json", "w"), indent=1)
print("imported", len(os.listdir(SEED)))
