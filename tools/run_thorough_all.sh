#!/bin/bash
# runs every thorough check in sequence (for vp run / overnight use); prints one summary line per check
for p in C01 C02 C03 C04 C05 C06 C07 C08 C09 C10 C11 C12 C13 C14 C15 C16; do
  /usr/bin/time -f "$p %es" /venv/bin/python harness/check.py --property $p --tier thorough 2>&1 | grep -E "VIOLATION|MACHINERY|KNOWN|thorough:|^C[0-9]+ [0-9.]+s" | cut -c1-260
done
