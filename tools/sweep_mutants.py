#!/usr/bin/env python3
"""For every mutant under /verif/seeded: apply it to /repo, run the quick check of the property it breaks (and any extra
checks named on the command line as NAME=C01,C02), undo it, and record the outcome in seeded/<name>/result.json."""
import json, os, subprocess, sys, time
SEED = "/verif/seeded"
VERIF = os.environ.get("SWEEP_VERIF", "/verif")    # the harness / spec to run (a snapshot copy, so that /verif can be edited meanwhile)
REPO = os.environ.get("SWEEP_REPO", "/repo")      # a scratch worktree can be swept instead of /repo (TUCAN_REPO is passed on)
only = [a for a in sys.argv[1:] if "=" not in a]
extra = dict(a.split("=") for a in sys.argv[1:] if "=" in a)
def sh(*a, **k): return subprocess.run(a, capture_output=True, text=True, **k)
assert sh("git", "-C", REPO, "status", "--porcelain").stdout.strip() == "", "repo dirty"
if os.environ.get("SWEEP_PREFIX"):
    only = [n for n in sorted(os.listdir(SEED)) if n.startswith(os.environ["SWEEP_PREFIX"])]
for name in sorted(os.listdir(SEED)):
    if only and name not in only: continue
    d = os.path.join(SEED, name)
    meta = json.load(open(d + "/meta.json"))
    props = [meta["breaks"]] + [p for p in extra.get(name, "").split(",") if p]
    if sh("git", "-C", REPO, "apply", d + "/patch.diff").returncode != 0:
        print(name, "PATCH DOES NOT APPLY"); continue
    res = json.load(open(d + "/result.json")) if os.path.exists(d + "/result.json") and os.environ.get("SWEEP_MERGE") else {}
    try:
        for p in props:
            t = time.time()
            r = sh("/venv/bin/python", "harness/check.py", "--property", p, "--tier", "quick", cwd=VERIF, env=dict(os.environ, TUCAN_REPO=REPO))
            viol = [l for l in r.stdout.splitlines() if l.startswith("VIOLATION")]
            res[p] = {"rc": r.returncode, "violations": len(viol), "first": viol[0][:240] if viol else "", "wall_s": round(time.time() - t)}
            print(name, p, "rc=%d" % r.returncode, (viol[0][:150] if viol else r.stdout.strip().splitlines()[-1][:150] if r.stdout.strip() else ""), flush=True)
    finally:
        sh("git", "-C", REPO, "checkout", "--", "."); sh("git", "-C", REPO, "clean", "-qfd", "tucan")
    json.dump(res, open(d + "/result.json", "w"), indent=1)
