#!/bin/bash
# confirm every sub-agent mutant in a scratch worktree: patch applies, suite passes with it, demo fails with it and passes without
WT=/tmp/mut/confirm
cd /repo && git worktree remove --force $WT 2>/dev/null; git worktree add -q --detach $WT HEAD || exit 1
for d in /tmp/mut/out/C*; do
  pid=$(basename $d)
  for k in 1 2 3; do
    [ -f $d/patch$k.diff ] || continue
    cd $WT && git checkout -q -- . && git clean -qfd
    cp $d/demo$k.py $WT/_demo.py
    clean_rc=$(cd $WT && PYTHONPATH=$WT timeout 600 /venv/bin/python _demo.py >/dev/null 2>&1; echo $?)
    if ! git apply $d/patch$k.diff 2>/dev/null; then echo "$pid $k APPLY-FAIL"; continue; fi
    suite=$(cd $WT && PYTHONPATH=$WT timeout 900 /venv/bin/python -m pytest -q -p no:cacheprovider --timeout=900 -n 8 2>&1 | tail -1)
    mut_rc=$(cd $WT && PYTHONPATH=$WT timeout 600 /venv/bin/python _demo.py >/dev/null 2>&1; echo $?)
    echo "$pid $k clean_demo_rc=$clean_rc mutant_demo_rc=$mut_rc suite=[$suite]"
  done
done
cd /repo && git worktree remove --force $WT
