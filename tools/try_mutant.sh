#!/bin/bash
# usage: try_mutant.sh <patch.diff> <PROP> [tier]   -- applies the patch to /repo, runs the check, always reverts
patch="$1"; prop="$2"; tier="${3:-quick}"
cd /repo || exit 9
if ! git diff --quiet; then echo "REPO DIRTY"; exit 9; fi
if [[ "$patch" == REVERT:* ]]; then git revert --no-commit "${patch#REVERT:}" >/dev/null 2>&1 || { echo "revert failed"; git revert --abort; exit 9; }
else git apply "$patch" || { echo "patch does not apply"; exit 9; }; fi
cd /verif
timeout 3000 /venv/bin/python harness/check.py --property "$prop" --tier "$tier" > /tmp/try_$prop.out 2>&1
rc=$?
cd /repo; git revert --abort >/dev/null 2>&1; git checkout -- . ; git reset -q --hard HEAD; git status --short | head -3
echo "rc=$rc"; grep -E "VIOLATION|MACHINERY|KNOWN" /tmp/try_$prop.out | cut -c1-300 | head -5; tail -1 /tmp/try_$prop.out | cut -c1-200
