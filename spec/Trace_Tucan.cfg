SPECIFICATION TSpec
CONSTANTS RLimit = 30 BFLimit = 6
CONSTRAINT Report
CHECK_DEADLOCK FALSE
