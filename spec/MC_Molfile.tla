---- MODULE MC_Molfile ----
(* Bounded models of the two text formats: every spelling choice of the renderers, applied to a handful of
   abstract molecules, must be decoded back to that molecule by the reference decoders
   (DecodeV3000(RenderV3000(M, c)) = M,  DecodeV2000(RenderV2000(M, c)) = M).
   The same runs print the texts for the replayer (spec -> code).                              *)
EXTENDS MolV2000, Json
TrueConst == TRUE
CONSTANTS Emit,        \* TRUE: print every rendered text (spec -> code replay)
          Family       \* which part of the choice space: "small", "cont", "all"

At(sym, chg, rad, mass, x) == [sym |-> sym, chg |-> chg, rad |-> rad, mass |-> mass, x |-> x, y |-> "-1.5", z |-> "0"]
Mols == <<
  [atoms |-> <<At("H", 0, 0, 2, "0.0"), At("O", 0, 0, 0, "1.25"), At("H", 0, 0, 0, "-2")>>, bonds |-> {<<0, 1, 1>>, <<1, 2, 1>>}],
  [atoms |-> <<At("C", -1, 2, 13, "1e3"), At("Cl", 0, 0, 0, "-0.0001"), At("N", 1, 0, 15, "3.")>>, bonds |-> {<<0, 1, 2>>, <<0, 2, 2>>}],
  [atoms |-> <<At("Fe", 2, 0, 0, "0"), At("C", 0, 0, 0, "1"), At("C", 0, 0, 0, "2"), At("H", 0, 0, 3, "3")>>,
   bonds |-> {<<0, 1, 9>>, <<0, 2, 9>>, <<1, 2, 4>>, <<2, 3, 1>>}],
  [atoms |-> <<At("Og", 0, 3, 294, "10000.1234")>>, bonds |-> {}],
  [atoms |-> <<At("H", 1, 0, 0, "0"), At("H", 0, 2, 2, "0")>>, bonds |-> {}],
  [atoms |-> <<At("C", 0, 0, 0, "0.5"), At("H", 0, 0, 3, "1.5"), At("H", 0, 0, 2, "2.5"), At("H", 0, 0, 0, "3.5"), At("C", 3, 0, 0, "4.5")>>,
   bonds |-> {<<0, 1, 1>>, <<0, 2, 1>>, <<0, 3, 1>>, <<0, 4, 3>>}],
  \* D and T next to another labelled atom: M  ISO lines and D / T symbols in one file
  [atoms |-> <<At("H", 0, 0, 2, "0.0"), At("O", 0, 0, 18, "1.0"), At("H", 0, 0, 3, "2.0")>>, bonds |-> {<<0, 1, 1>>, <<1, 2, 1>>}]
>>
IdxMaps(n) == {[k \in 1..n |-> k], [k \in 1..n |-> 3 * (n - k + 1)], [k \in 1..n |-> 998 + ((k * k) % 7) + (10 * k)]}

\* ---------------------------------------------------------------- V3000
C0(n) == DefaultChoice(n)
Choices3Small(M) ==
  LET n == Len(M.atoms) IN
  {[C0(n) EXCEPT !.idx = ix, !.blanks = b, !.porder = p] : ix \in IdxMaps(n), b \in 1..Len(BlankRuns), p \in 1..6}
  \cup {[C0(n) EXCEPT !.aextra = x, !.exon = k, !.exfirst = f] : x \in 1..Len(AtomExtras), k \in 1..n, f \in BOOLEAN}
  \cup {[C0(n) EXCEPT !.bextra = x, !.swap = s] : x \in 1..Len(BondExtras), s \in BOOLEAN}
  \cup {[C0(n) EXCEPT !.defaults = d, !.dt = t, !.star = st, !.starat = sa, !.bondrev = r, !.swap = s, !.trail = tr, !.idx = ix, !.porder = p]
          : d \in BOOLEAN, t \in BOOLEAN, st \in BOOLEAN, sa \in 0..(n - 1), r \in BOOLEAN, s \in BOOLEAN, tr \in BOOLEAN,
            ix \in {[k \in 1..n |-> 3 * (n - k + 1)]}, p \in {1, 6}}
\* a continuation dash at every character offset of every body line, and a second one inside the continuation
Choices3Cont(M) ==
  LET n == Len(M.atoms)
      base == {C0(n), [C0(n) EXCEPT !.defaults = TRUE, !.star = TRUE, !.blanks = 3, !.idx = [k \in 1..n |-> 3 * (n - k + 1)], !.aextra = 14, !.bextra = 5]}
  IN {[c EXCEPT !.cont = <<i, off>>, !.cont2 = j] : c \in base, i \in 1..(Len(BodyLines(M, C0(n))) + 1), off \in 1..75, j \in {0, 1, 4}}
Choices3(M) == IF Family = "small" THEN Choices3Small(M) ELSE IF Family = "cont" THEN Choices3Cont(M) ELSE Choices3Small(M) \cup Choices3Cont(M)

VARIABLES m, c, text, dec, fmt
mvars == <<m, c, text, dec, fmt>>
Init3 == /\ fmt = "V3000" /\ m \in 1..Len(Mols) /\ c \in Choices3(Mols[m]) /\ text = <<>> /\ dec = <<>>
         \* keep only splits that exist (the renderer ignores an impossible split: those would be duplicates)
         /\ LET b == BodyLines(Mols[m], c) IN
            c.cont = <<0, 0>> \/ (c.cont[1] <= Len(b) /\ 7 + c.cont[2] < Len(b[c.cont[1]])
                                   /\ (c.cont2 = 0 \/ c.cont2 + c.cont[2] + 7 < Len(b[c.cont[1]])))
Render3 == fmt = "V3000" /\ text = <<>> /\ text' = RenderV3000(Mols[m], c) /\ UNCHANGED <<m, c, dec, fmt>>
Decode3 == fmt = "V3000" /\ text # <<>> /\ dec = <<>> /\ dec' = DecodeV3000(text) /\ UNCHANGED <<m, c, text, fmt>>
Spec3 == Init3 /\ [][Render3 \/ Decode3]_mvars

\* ---------------------------------------------------------------- V2000
C2 == DefaultChoice2
Expressible(M) == \A k \in 1..Len(M.atoms) : BlockExpressible(M.atoms[k])
Choices2(M) ==
  {[C2 EXCEPT !.mode = md, !.group = g, !.zeros = z, !.dt = t, !.isodt = it, !.swap = s, !.revent = r, !.isofirst = f]
      : md \in (IF Expressible(M) THEN {"block", "lines", "both"} ELSE {"lines"}), g \in 1..8, z \in BOOLEAN, t \in BOOLEAN,
        it \in BOOLEAN, s \in BOOLEAN, r \in BOOLEAN, f \in BOOLEAN}
  \cup {[C2 EXCEPT !.mode = "stale", !.stale = st, !.zeros = z, !.dt = t, !.extra = x, !.lists = l, !.trail = tr, !.group = g]
      : st \in {<<4>>, <<1, 5>>, <<3, 0, 4>>, <<7, 4, 2, 6>>}, z \in BOOLEAN, t \in BOOLEAN, x \in BOOLEAN, l \in BOOLEAN, tr \in BOOLEAN, g \in {1, 2, 8}}
  \cup {[C2 EXCEPT !.mode = md, !.extra = x, !.lists = l, !.trail = tr, !.dt = t]
      : md \in (IF Expressible(M) THEN {"block", "lines", "both"} ELSE {"lines"}), x \in BOOLEAN, l \in BOOLEAN, tr \in BOOLEAN, t \in BOOLEAN}
\* V2000 coordinates are written in ten-column fields: literals are used as they are (all fit)
Init2 == /\ fmt = "V2000" /\ m \in 1..Len(Mols) /\ c \in Choices2(Mols[m]) /\ text = <<>> /\ dec = <<>>
Render2 == fmt = "V2000" /\ text = <<>> /\ text' = RenderV2000(Mols[m], c) /\ UNCHANGED <<m, c, dec, fmt>>
Decode2 == fmt = "V2000" /\ text # <<>> /\ dec = <<>> /\ dec' = DecodeV2000(text) /\ UNCHANGED <<m, c, text, fmt>>
Spec2 == Init2 /\ [][Render2 \/ Decode2]_mvars

\* ---------------------------------------------------------------- checked
DecodesBack == dec # <<>> => SameMolecule(dec, Mols[m])
\* both formats describe the same molecule: the V2000 rendering decodes to what the default V3000 rendering decodes to
FormatsAgree == (dec # <<>> /\ fmt = "V2000") => dec = DecodeV3000(RenderV3000(Mols[m], DefaultChoice(Len(Mols[m].atoms))))
EmitText == (Emit /\ dec # <<>>) => PrintT(ToJson([fmt |-> fmt, lines |-> text, m |-> m, mol |-> [atoms |-> Mols[m].atoms, bonds |-> SetToSeq(Mols[m].bonds)]]))
====
