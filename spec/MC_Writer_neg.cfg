SPECIFICATION WSpec
CONSTANTS CutAt = 72 FitLen = 72 MaxLen = 160
  ProbeChars = {" ", "-"}
  ProbePositions = {1, 71, 72, 73}
INVARIANT WriterOK
CHECK_DEADLOCK FALSE
