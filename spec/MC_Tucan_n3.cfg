SPECIFICATION MSpec
CONSTANTS RLimit = 99 BFLimit = 6 MaxN = 3
  Palette <- PaletteHDCO
INVARIANT AllHold
INVARIANT FixedPoint
CHECK_DEADLOCK FALSE
