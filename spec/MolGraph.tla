---- MODULE MolGraph ----
(* The object the TUCAN pipeline manipulates, seen abstractly.

   A molecule graph G is a record
     n     number of atoms; atom ids are 1..n  (id = networkx node label + 1)
     z     Seq(1..118)    atomic number
     sym   Seq(STRING)    element symbol
     mass  Seq(Nat)       isotope mass, 0 = not labelled
     rad   Seq(Nat)       radical state, 0 = none
     hasm, hasr  Seq(BOOLEAN)  "the key is present on the node" (the serializer writes a key
                          whenever it is present, even with value 0: the presence bits are
                          what makes a reader that stores explicit defaults observable)
     part  Seq(Nat)       partition class (0 before canonicalization)
     adj   Seq(SUBSET 1..n)   neighbours
   Non-identity data (charge, coordinates, bond type, arbitrary user attributes) travels in
     tag   Seq(Nat)       a unique per-atom tag the drivers attach (0 = none)
     attr  Seq(STRING)    canonical rendering of ALL node attributes except 'partition'
     mattr Seq(STRING)    ... of the chemically meaningful attributes only;  chg Seq(Int) charge
     ord   Seq(1..n)      the atoms in the order in which the object lists them
     ebag  set of <<a, b, s>>, a < b, s = canonical rendering of the bond's attributes
   and is never read by the operators that compute the identifier.                        *)
EXTENDS Integers, Sequences, FiniteSets, TLC, SequencesExt, FiniteSetsExt, Functions

Atoms(G) == 1..G.n
EdgeSet(G) == UNION {{<<a, b>> : b \in {x \in G.adj[a] : x > a}} : a \in Atoms(G)}
NumEdges(G) == Cardinality(EdgeSet(G))
Colour(G, a) == <<G.z[a], G.mass[a], G.rad[a]>>        \* the "invariant code"

WellFormed(G) ==
  /\ G.n >= 1
  /\ \A a \in Atoms(G) : G.adj[a] \subseteq Atoms(G) /\ a \notin G.adj[a]
  /\ \A a, b \in Atoms(G) : (b \in G.adj[a]) <=> (a \in G.adj[b])

IsPerm(f, n) == DOMAIN f = 1..n /\ {f[i] : i \in 1..n} = 1..n
\* the inverse of a permutation, by sorting the pairs <<f[i], i>> (n log n; CHOOSE per element would be quadratic)
InvPerm(f, n) == LET s == SetToSortSeq({<<f[i], i>> : i \in 1..n}, LAMBDA x, y : x[1] < y[1]) IN TLCEval([j \in 1..n |-> s[j][2]])

\* G with atom a renamed to f[a]  (a permutation of 1..n); all per-atom data moves along
Apply(G, f) ==
  LET inv == InvPerm(f, G.n)
      Mv(col) == [l \in 1..G.n |-> col[inv[l]]]
      Lo(a, b) == IF f[a] < f[b] THEN f[a] ELSE f[b]
      Hi(a, b) == IF f[a] < f[b] THEN f[b] ELSE f[a]
  IN
  [n |-> G.n, z |-> Mv(G.z), sym |-> Mv(G.sym), mass |-> Mv(G.mass), rad |-> Mv(G.rad),
   hasm |-> Mv(G.hasm), hasr |-> Mv(G.hasr), part |-> Mv(G.part),
   adj |-> [l \in 1..G.n |-> {f[b] : b \in G.adj[inv[l]]}],
   tag |-> Mv(G.tag), attr |-> Mv(G.attr), mattr |-> Mv(G.mattr), chg |-> Mv(G.chg),
   ord |-> [i \in 1..G.n |-> f[G.ord[i]]],
   ebag |-> {<<Lo(e[1], e[2]), Hi(e[1], e[2]), e[3]>> : e \in G.ebag}]

\* f is a colour- and bond-preserving bijection from G onto H
IsColourIso(G, H, f) ==
  /\ G.n = H.n /\ IsPerm(f, G.n)
  /\ \A a \in Atoms(G) : Colour(G, a) = Colour(H, f[a])
  /\ \A a \in Atoms(G) : {f[b] : b \in G.adj[a]} = H.adj[f[a]]

\* equality of what C04 calls "the same labelled graph"
LabelledEq(G, H) ==
  /\ G.n = H.n
  /\ \A a \in Atoms(G) : Colour(G, a) = Colour(H, a) /\ G.part[a] = H.part[a] /\ G.adj[a] = H.adj[a]

\* brute force (small n only)
Perms(n) == {f \in [1..n -> 1..n] : {f[i] : i \in 1..n} = 1..n}
Isomorphic(G, H) == G.n = H.n /\ \E f \in Perms(G.n) : IsColourIso(G, H, f)
Aut(G) == {f \in Perms(G.n) : IsColourIso(G, G, f)}
SameOrbit(G, a, b) == \E f \in Aut(G) : f[a] = b

\* generic helpers
SortAsc(S) == SetToSortSeq(S, <)
RECURSIVE SeqLess(_, _)
SeqLess(s, t) == IF s = <<>> THEN t # <<>>
                 ELSE IF t = <<>> THEN FALSE
                 ELSE IF s[1] < t[1] THEN TRUE
                 ELSE IF s[1] > t[1] THEN FALSE
                 ELSE SeqLess(Tail(s), Tail(t))
RECURSIVE Cat(_)
Cat(ss) == IF ss = <<>> THEN "" ELSE ss[1] \o Cat(Tail(ss))
Connected(G, a, b) ==   \* reachability, by fixpoint
  LET RECURSIVE Grow(_)
      Grow(S) == LET T == S \cup UNION {G.adj[x] : x \in S} IN IF T = S THEN S ELSE Grow(T)
  IN b \in Grow({a})
====
