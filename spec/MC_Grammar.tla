---- MODULE MC_Grammar ----
(* Bounded models around the grammar.

   Edits (C10, C05): for each base sentence every single-token insertion, deletion, replacement and transposition
     is judged by the reference reader; what is checked at design level is the reader's own consistency
     (a verdict for every string; accepted strings denote well-formed molecules; the unedited sentence is accepted
     and reads back as the structure it was spelled from).  The strings are printed for the replayer.
   Respell (C11): from each base sentence (canonical strings of small molecules) every sequence of at most Depth
     meaning-preserving respellings keeps the denoted molecule (checked through the index map the operators
     return) and normalizes -- parse, canonicalize (bliss contract), serialize, all by the specification --
     to the base string.                                                                          *)
EXTENDS Respell, MolGraph, Refine, Serialize, Bliss, Json
CONSTANTS Depth, Alphabet, Emit

B(F, U, A) == [F |-> F, U |-> U, A |-> A]
Bases == <<
  B(<< <<"H", 2>>, <<"O", 1>> >>, << <<1, 3>>, <<2, 3>> >>, << <<2, << <<"mass", 2>> >> >> >>),
  B(<< <<"C", 1>>, <<"H", 3>> >>, << <<1, 4>>, <<2, 4>>, <<3, 4>> >>, << <<4, << <<"mass", 13>>, <<"rad", 2>> >> >> >>),
  B(<< <<"C", 2>>, <<"H", 2>>, <<"Cl", 1>> >>, << <<1, 3>>, <<2, 4>>, <<3, 4>>, <<4, 5>> >>, <<>>),
  B(<< <<"He", 2>> >>, <<>>, << <<2, << <<"mass", 3>> >> >> >>),
  B(<< <<"H", 1>>, <<"Na", 1>>, <<"O", 1>> >>, << <<1, 2>>, <<2, 3>> >>, << <<1, << <<"rad", 1>> >> >>, <<3, << <<"mass", 23>> >> >> >>),
  B(<< <<"C", 10>>, <<"H", 1>> >>, << <<1, 10>>, <<9, 11>>, <<10, 11>> >>, << <<11, << <<"mass", 12>> >> >> >>)
>>
\* as molecules: H2O with one D (atoms numbered by increasing Z: H H O); 13C-methyl radical; chloro-ethyne-like chain; ...

VARIABLES mode, b, cur, imap, depth, verdict
gvars == <<mode, b, cur, imap, depth, verdict>>

\* ---------------------------------------------------------------- Edits
EInit == /\ mode = "edit" /\ b \in 1..Len(Bases) /\ imap = <<>> /\ depth = 0 /\ verdict = <<>>
         /\ cur \in Edits1(Lex(Spell(Bases[b])), Alphabet) \cup {Lex(Spell(Bases[b]))}
Judge == mode = "edit" /\ verdict = <<>> /\ verdict' = Denote(CatR(cur)) /\ UNCHANGED <<mode, b, cur, imap, depth>>
ESpecG == EInit /\ [][Judge]_gvars
ReaderConsistent ==
  (mode = "edit" /\ verdict # <<>>) =>
     /\ verdict.acc \in BOOLEAN
     /\ verdict.acc =>
          /\ (verdict.n <= MaxExpand => Len(verdict.z) = verdict.n /\ \A i \in 1..(verdict.n - 1) : verdict.z[i] <= verdict.z[i + 1])
          /\ \A e \in verdict.bonds : Cardinality(e) = 2 /\ e \subseteq 1..verdict.n
          /\ \A p \in verdict.mass \cup verdict.rad : p[1] \in 1..verdict.n /\ p[2] >= 1
     /\ (cur = Lex(Spell(Bases[b])) => /\ verdict.acc /\ verdict.n = NAtoms(Bases[b])
                                       /\ verdict.bonds = {{Bases[b].U[k][1], Bases[b].U[k][2]} : k \in 1..Len(Bases[b].U)})
     /\ (~verdict.acc => verdict.why \in {"syntax", "selfloop", "index", "duplicate"})
EmitString == (Emit /\ verdict # <<>>) => PrintT(ToJson([s |-> CatR(cur)]))

\* ---------------------------------------------------------------- Respell
Norm(s) == LET D == Denote(s) IN SerializeMolecule(SpecCanon(
              [n |-> D.n, z |-> D.z, sym |-> [i \in 1..D.n |-> ByZ[D.z[i]]],
               mass |-> [i \in 1..D.n |-> LET S == {p \in D.mass : p[1] = i} IN IF S = {} THEN 0 ELSE (CHOOSE p \in S : TRUE)[2]],
               rad |-> [i \in 1..D.n |-> LET S == {p \in D.rad : p[1] = i} IN IF S = {} THEN 0 ELSE (CHOOSE p \in S : TRUE)[2]],
               hasm |-> [i \in 1..D.n |-> \E p \in D.mass : p[1] = i], hasr |-> [i \in 1..D.n |-> \E p \in D.rad : p[1] = i],
               part |-> [i \in 1..D.n |-> 0], adj |-> [a \in 1..D.n |-> {x \in 1..D.n : {a, x} \in D.bonds}],
               tag |-> [i \in 1..D.n |-> i], attr |-> [i \in 1..D.n |-> ""], mattr |-> [i \in 1..D.n |-> ""],
               chg |-> [i \in 1..D.n |-> 0], ord |-> [i \in 1..D.n |-> i], ebag |-> {}]))
RInit == /\ mode = "respell" /\ b \in 1..Len(Bases) /\ NAtoms(Bases[b]) <= 6 /\ cur = Bases[b] /\ imap = IdMap(NAtoms(Bases[b])) /\ depth = 0 /\ verdict = <<>>
RStep == /\ mode = "respell" /\ depth < Depth
         /\ \E r \in Respellings(cur) : cur' = r.s /\ imap' = [i \in 1..Len(imap) |-> r.m[imap[i]]]
         /\ depth' = depth + 1 /\ UNCHANGED <<mode, b, verdict>>
RSpecG == RInit /\ [][RStep]_gvars
SameDenotation(D1, D2, f) ==
  /\ D1.acc /\ D2.acc /\ D1.n = D2.n /\ \A i \in 1..D1.n : D1.z[i] = D2.z[f[i]]
  /\ {{f[x] : x \in e} : e \in D1.bonds} = D2.bonds
  /\ {<<f[p[1]], p[2]>> : p \in D1.mass} = D2.mass /\ {<<f[p[1]], p[2]>> : p \in D1.rad} = D2.rad
RespellingKeepsMolecule == mode = "respell" => SameDenotation(Denote(Spell(Bases[b])), Denote(Spell(cur)), imap)
NormalForm == mode = "respell" => Norm(Spell(cur)) = Norm(Spell(Bases[b]))
BaseIsNormal == (mode = "respell" /\ depth = 0) => Norm(Spell(cur)) = Spell(cur)
EmitRespelling == (Emit /\ mode = "respell") => PrintT(ToJson([s |-> Spell(cur), base |-> Spell(Bases[b]), imap |-> imap]))
====
