---- MODULE Writer ----
(* io/molfile_writer.py: _add_v30_line.  A V3000 line may be at most 80 characters long including the newline;
   "M  V30 " takes 7, so 72 characters of content fit; longer content is cut into pieces of CutAt
   characters, each followed by the continuation dash.  Read back with MolV3000!Splice.        *)
EXTENDS MolV3000
CONSTANTS CutAt,      \* 71 in the code
          FitLen      \* 72 in the code: content of at most this length is written as it is
RECURSIVE Wrap(_)
Wrap(x) == IF Len(x) <= FitLen THEN <<V30 \o x>>
           ELSE <<V30 \o SubSeq(x, 1, CutAt) \o "-">> \o Wrap(SubSeq(x, CutAt + 1, Len(x)))
LineLimitOK(lines) == \A i \in 1..Len(lines) : Len(lines[i]) + 1 <= 80
RoundTrip(x) == Splice(Wrap(x)) = <<V30 \o x>>

\* ---- bounded model: content of every length 0..MaxLen, all "a" except one probe character at one position
CONSTANTS MaxLen, ProbeChars, ProbePositions
VARIABLES len, pos, ch, out
wvars == <<len, pos, ch, out>>
RECURSIVE Rep(_, _)
Rep(c, k) == IF k <= 0 THEN "" ELSE c \o Rep(c, k - 1)
Content == IF pos >= 1 /\ pos <= len THEN Rep("a", pos - 1) \o ch \o Rep("a", len - pos) ELSE Rep("a", len)
WInit == /\ len \in 0..MaxLen /\ pos \in ProbePositions /\ ch \in ProbeChars /\ out = <<>>
         /\ (pos > len => (pos = Min(ProbePositions) /\ ch = CHOOSE c \in ProbeChars : TRUE))    \* no duplicates of the plain content
         /\ ~(ch = "-" /\ pos = len)             \* content of a V30 line never ends with a dash (it would read as a continuation)
WWrite == out = <<>> /\ out' = Wrap(Content) /\ UNCHANGED <<len, pos, ch>>
WSpec == WInit /\ [][WWrite]_wvars
WriterOK == out # <<>> => /\ LineLimitOK(out) /\ Splice(out) = <<V30 \o Content>>
                          /\ \A i \in 1..(Len(out) - 1) : EndsWith(out[i], "-")
====
