---- MODULE Serialize ----
(* serialization.py: serialize_molecule = write(sort_by_atomic_number(assign_final_labels(K))).
   The result is a real string, byte-comparable with the implementation's output.           *)
EXTENDS FinalLabels, Elements

\* ---- graph_utils.sort_molecule_by_attribute(m, ATOMIC_NUMBER) ----
\* key of atom a = (z(a), z of neighbours descending ..., label);  Python compares the attribute
\* tuples first (a proper prefix is smaller) and the label last
ZSeq(K, a) == <<K.z[a]>> \o SortSeq(LET ns == SetToSeq(K.adj[a]) IN [i \in 1..Len(ns) |-> K.z[ns[i]]], >)
KeyLess(K, zs, a, b) == IF zs[a] = zs[b] THEN a < b ELSE SeqLess(zs[a], zs[b])
SortMap(K) == LET zs == TLCEval([a \in Atoms(K) |-> ZSeq(K, a)]) IN
              [a \in Atoms(K) |-> 1 + Cardinality({b \in Atoms(K) : KeyLess(K, zs, b, a)})]

\* ---- _write_sum_formula: Hill order ----
Count(K, s) == Cardinality({a \in Atoms(K) : K.sym[a] = s})
Item(K, s) == IF Count(K, s) > 1 THEN s \o ToString(Count(K, s)) ELSE s
FormulaSymbols(K) ==
  LET present == {K.sym[a] : a \in Atoms(K)}
      hasC    == "C" \in present
      rest    == IF hasC THEN present \ {"C", "H"} ELSE present
      head    == IF hasC THEN <<"C">> \o (IF "H" \in present THEN <<"H">> ELSE <<>>) ELSE <<>>
  IN head \o SetToSortSeq(rest, LAMBDA x, y : AlphaIdx[x] < AlphaIdx[y])
WriteFormula(K) == LET fs == FormulaSymbols(K) IN Cat([i \in 1..Len(fs) |-> Item(K, fs[i])])

\* ---- _write_edge_list ----
EdgeLess(e, f) == e[1] < f[1] \/ (e[1] = f[1] /\ e[2] < f[2])
WriteEdges(K) == LET es == SetToSortSeq(EdgeSet(K), EdgeLess) IN
  Cat([i \in 1..Len(es) |-> "(" \o ToString(es[i][1]) \o "-" \o ToString(es[i][2]) \o ")"])

\* ---- _write_node_attributes: mass before rad, a key is written iff it is present ----
AttrBlock(K, a) ==
  LET ps == (IF K.hasm[a] THEN <<"mass=" \o ToString(K.mass[a])>> ELSE <<>>)
            \o (IF K.hasr[a] THEN <<"rad=" \o ToString(K.rad[a])>> ELSE <<>>)
  IN IF ps = <<>> THEN ""
     ELSE "(" \o ToString(a) \o ":" \o (IF Len(ps) = 2 THEN ps[1] \o "," \o ps[2] ELSE ps[1]) \o ")"
WriteAttrs(K) == Cat([a \in 1..K.n |-> AttrBlock(K, a)])

WriteTucan(K2) == LET at == WriteAttrs(K2) IN
  WriteFormula(K2) \o "/" \o WriteEdges(K2) \o (IF at = "" THEN "" ELSE "/" \o at)

Relabelled(K) == TLCEval(Apply(K, FinalLabelMap(K)))
SortedByZ(K1) == TLCEval(Apply(K1, SortMap(K1)))
SerializeMolecule(K) == WriteTucan(SortedByZ(Relabelled(K)))
====
