---- MODULE MC_Tucan ----
(* Bounded model of a TUCAN session in which every library call is answered by the specification's
   own algorithms (Refine -> bliss contract -> FinalLabels -> Serialize -> Grammar).

   One behaviour = one molecule M out of ALL labelled coloured graphs with at most MaxN atoms, one
   generator sigma of the relabelling group (transposition, n-cycle), one listing order, and for
   every canonicalization one of the labellings the bliss contract allows (the contract fixes
   the labelled graph, not which of several symmetric atoms gets a number):

     input M ; derive sigma.M ; canon both ; serialize both ; parse the string ; canon ; serialize

   The events go through the very actions that validate recorded traces (Tucan!Step), so the
   invariants are the listed properties C01-C05, C10, C12, C13, and -- because here the events
   ARE the specification's algorithm -- also "no refinement-mode difference".

   Invariance under all relabellings follows from the generators: the set of molecules visited
   is closed under relabelling.                                                              *)
EXTENDS Tucan, Bliss, Json

CONSTANTS MaxN,        \* largest number of atoms
          Palette,     \* set of colours <<z, mass, rad>> atoms may take
          Adapter,     \* "apply": the labelling is applied as bliss means it (igraph's own permute_vertices, the repaired code);
                       \* "zip_inverse": the vector is read in the other convention (the pinned tree with igraph 1.0) -- negative control
          AnyLabelling \* FALSE: bliss answers with a canonical labelling (its contract).  TRUE ("downstream" instance): it may answer
                       \* with ANY labelling -- then equal strings / equal canonical graphs for relabelled inputs are not expected, but
                       \* everything downstream of the labelling (C03, C05, C12, C13: the string denotes the molecule, obeys the layout,
                       \* nothing is lost) must hold for every labelled graph the serializer can ever be handed

VARIABLES pc, M, pick
mvars == <<vars, pc, M, pick>>

\* palettes (cfg files cannot write tuples): H, D, C, an oxygen radical; a 13C; H and He share a prefix
PaletteHDCO == {<<1, 0, 0>>, <<1, 2, 0>>, <<6, 0, 0>>, <<8, 0, 2>>}
PaletteHCO  == {<<1, 0, 0>>, <<6, 0, 0>>, <<8, 0, 0>>}
PaletteC13  == {<<6, 0, 0>>, <<6, 13, 0>>, <<6, 0, 2>>}
PaletteHC   == {<<1, 0, 0>>, <<6, 0, 0>>}
PaletteC    == {<<6, 0, 0>>}
PaletteCl   == {<<6, 0, 0>>, <<17, 0, 0>>, <<1, 0, 0>>, <<55, 0, 0>>}      \* C, Cl, H, Cs: Hill order vs. Z order
\* ---------------------------------------------------------------- all small molecules
Pairs(n) == {<<a, b>> \in (1..n) \X (1..n) : a < b}
SymOf(z) == ByZ[z]
MkMol(n, col, E) ==
  [n |-> n,
   z |-> [a \in 1..n |-> col[a][1]], sym |-> [a \in 1..n |-> SymOf(col[a][1])],
   mass |-> [a \in 1..n |-> col[a][2]], rad |-> [a \in 1..n |-> col[a][3]],
   hasm |-> [a \in 1..n |-> col[a][2] # 0], hasr |-> [a \in 1..n |-> col[a][3] # 0],
   part |-> [a \in 1..n |-> 0],
   adj |-> [a \in 1..n |-> {b \in 1..n : <<a, b>> \in E \/ <<b, a>> \in E}],
   tag |-> [a \in 1..n |-> a],
   attr |-> [a \in 1..n |-> "atom" \o ToString(a)], mattr |-> [a \in 1..n |-> "atom" \o ToString(a)],
   chg |-> [a \in 1..n |-> 0], ord |-> [a \in 1..n |-> a],
   ebag |-> {<<e[1], e[2], "bond" \o ToString(10 * e[1] + e[2])>> : e \in E}]

Gen(n) == IF n = 1 THEN {[a \in 1..1 |-> 1]}
          ELSE {[a \in 1..n |-> IF a = 1 THEN 2 ELSE IF a = 2 THEN 1 ELSE a],      \* transposition (1 2)
                [a \in 1..n |-> IF a = n THEN 1 ELSE a + 1]}                          \* n-cycle

\* ---------------------------------------------------------------- the session
MInit == /\ Init /\ pc = "input" /\ pick = 0
         /\ M \in {MkMol(n, col, E) : n \in {MaxN}, col \in [1..MaxN -> Palette], E \in SUBSET Pairs(MaxN)}
                  \cup (IF MaxN > 1 THEN {MkMol(n, col, E) : n \in {MaxN - 1}, col \in [1..(MaxN - 1) -> Palette], E \in SUBSET Pairs(MaxN - 1)} ELSE {})

DoInput ==
  /\ pc = "input"
  /\ Step([op |-> "input", obj |-> 1, g |-> M])
  /\ pc' = "derive" /\ UNCHANGED <<M, pick>>
DoDerive ==
  /\ pc = "derive"
  /\ \E f \in Gen(M.n) :
       /\ Step([op |-> "derive", obj |-> 2, from |-> 1, kind |-> "relabel",
                perm |-> [i \in 1..M.n |-> f[i] - 1], g |-> Apply(M, f)])
       /\ pick' = f
  /\ pc' = "canon1" /\ UNCHANGED M
DoCanon(arg, ret, next) ==
  /\ \E f \in (IF AnyLabelling THEN Perms(objs[arg].n) ELSE CanonLabellings(WithPart(objs[arg]))) :
       Step([op |-> "canon", arg |-> arg, ret |-> ret,
             g |-> SpecCanonicalize(objs[arg], IF Adapter = "zip_inverse" THEN InvPerm(f, objs[arg].n) ELSE f),
             before |-> objs[arg], after |-> objs[arg],
             parts |-> RefineTrace(objs[arg])])
  /\ pc' = next /\ UNCHANGED <<M, pick>>
DoSer(arg, next) ==
  /\ Step([op |-> "ser", arg |-> arg, ret |-> SerializeMolecule(objs[arg]), before |-> objs[arg], after |-> objs[arg]])
  /\ pc' = next /\ UNCHANGED <<M, pick>>
DoParse(arg, ret, next) ==     \* parse the string returned for object arg
  /\ LET s == strOf[cls[arg]]  D == Denote(s) IN
     Step([op |-> "parse", s |-> s, ret |-> ret, g |-> [DenoteGraph(D) EXCEPT !.tag = [i \in 1..D.n |-> 100 + i]]])
  /\ pc' = next /\ UNCHANGED <<M, pick>>
\* the parsed graph is the same molecule as the one serialized: stated with the witness the
\* serializer's own relabelling provides, verified by SameMol
DoLink(a, b, next) ==
  /\ LET K == objs[a]  K1 == Relabelled(K)  w == Compose(SortMap(K1), FinalLabelMap(K), K.n) IN
     Step([op |-> "same", a |-> a, b |-> b, perm |-> [i \in 1..K.n |-> w[i] - 1]])
  /\ pc' = next /\ UNCHANGED <<M, pick>>

MNext ==
  \/ DoInput \/ DoDerive
  \/ (pc = "canon1" /\ DoCanon(1, 3, "canon2"))
  \/ (pc = "canon2" /\ DoCanon(2, 4, "ser1"))
  \/ (pc = "ser1" /\ DoSer(3, "ser2"))
  \/ (pc = "ser2" /\ DoSer(4, "parse"))
  \/ (pc = "parse" /\ DoParse(3, 5, "link"))
  \/ (pc = "link" /\ DoLink(3, 5, "canon3"))
  \/ (pc = "canon3" /\ DoCanon(5, 6, "ser3"))
  \/ (pc = "ser3" /\ DoSer(6, "done"))
MSpec == MInit /\ [][MNext]_mvars

\* spec -> code: print every input presentation of the model (molecule, relabelling) for the replayer
ESpec == MInit /\ [][DoInput \/ DoDerive]_mvars
EmitInputs == pc = "canon1" =>
  PrintT(ToJson([col |-> [a \in 1..M.n |-> Colour(M, a)], edges |-> SetToSeq(EdgeSet(M)), perm |-> pick]))

\* ---------------------------------------------------------------- what is checked
AllHold == viol = {}                      \* no property clause, no harness fault, no refinement difference
DownstreamHolds == \A c \in viol : SubSeq(c, 1, 4) \in {"C01:", "C04:"} \/ c = "C03:not-a-fixed-point-of-the-pipeline"
FixedPoint == pc = "done" => /\ cls[6] = cls[1] /\ cls[4] = cls[1]        \* all three descriptions were recognised as one molecule
                             /\ Cardinality({p[2] : p \in sers}) = 1     \* ... and got one string
Terminates == pc = "done" => Cardinality(sers) >= 1
====
