---- MODULE Threads ----
(* Concurrent callers (C14).  Each thread runs ONE public operation on objects that may be shared with other
   threads; an operation is a sequence of atomic steps over explicitly shared variables.  The places where the
   library could share state between callers are constants, so that TLC can be run on the code as it is and on
   each deviation (negative controls):

     ScratchOn   "local" | "argument"   where serialize keeps its 'explored' flags (a node attribute of the
                                        argument graph in the pinned tree: threads wipe each other's flags)
     PartOn      "copy"  | "argument"   where a refinement round writes the new classes (in place: rounds of two
                                        threads interleave on one partition vector)
     ParserState "fresh" | "shared"     one lexer / parser / listener per call, or one per process

   The shared molecule is the canonical graph of a small molecule given by the constants below; the sequential
   result of every operation is computed by the same step functions run alone.                      *)
EXTENDS Integers, Sequences, FiniteSets, TLC, SequencesExt, FiniteSetsExt
CONSTANTS T,             \* thread ids
          OpOf,          \* thread -> "ser" | "canon" | "parse"
          ScratchOn, PartOn, ParserState,
          N, AdjC, Col   \* the shared graph: atoms 0..N-1, adjacency, initial colour (element rank)

Nodes == 0..(N - 1)
SortAsc(S) == SetToSortSeq(S, <)
RECURSIVE SeqLess(_, _)
SeqLess(s, t) == IF s = <<>> THEN t # <<>> ELSE IF t = <<>> THEN FALSE
                 ELSE IF s[1] < t[1] THEN TRUE ELSE IF s[1] > t[1] THEN FALSE ELSE SeqLess(Tail(s), Tail(t))
\* one refinement round on a partition vector
Key(p, a) == <<p[a]>> \o SortSeq([i \in 1..Cardinality(AdjC[a]) |-> p[SortAsc(AdjC[a])[i]]], >)
Round(p) == LET ks == [a \in Nodes |-> Key(p, a)]  U == {ks[a] : a \in Nodes}
            IN [a \in Nodes |-> Cardinality({k \in U : SeqLess(k, ks[a])})]
MaxOf(p) == Max({p[a] : a \in Nodes})
RECURSIVE Fix(_)
Fix(p) == LET q == Round(p) IN IF MaxOf(q) = MaxOf(p) THEN q ELSE Fix(q)
FinalPart == Fix(Round(Col))          \* the sequential canonicalization result (classes)
Avail0 == [c \in {FinalPart[a] : a \in Nodes} |-> SortAsc({a \in Nodes : FinalPart[a] = c})]

VARIABLES pc, flags, lflags, queue, avail, final, cur,      \* serialize
          spart, lpart, prev,                                \* canonicalize: shared / private partition vector
          ppos, lpos, toks,                                  \* parser: shared / private read position, tokens consumed
          err
vars == <<pc, flags, lflags, queue, avail, final, cur, spart, lpart, prev, ppos, lpos, toks, err>>
AllFalse == [a \in Nodes |-> FALSE]
Input == <<"C", "H", "4", "/", "(", "1", "-", "5", ")">>          \* what a parse call has to consume, in order

Init == /\ pc = [t \in T |-> "start"] /\ flags = AllFalse /\ lflags = [t \in T |-> AllFalse]
        /\ queue = [t \in T |-> <<>>] /\ avail = [t \in T |-> Avail0] /\ final = [t \in T |-> <<>>] /\ cur = [t \in T |-> -1]
        /\ spart = Col /\ lpart = [t \in T |-> Col] /\ prev = [t \in T |-> -1]
        /\ ppos = 1 /\ lpos = [t \in T |-> 1] /\ toks = [t \in T |-> <<>>]
        /\ err = [t \in T |-> "none"]

\* ---------------------------------------------------------------- serialize (the BFS of FinalLabels, flags as configured)
Flag(t) == IF ScratchOn = "argument" THEN flags ELSE lflags[t]
SetFlags(t, f) == IF ScratchOn = "argument" THEN flags' = f /\ lflags' = lflags ELSE lflags' = [lflags EXCEPT ![t] = f] /\ flags' = flags
SerVars == <<spart, lpart, prev, ppos, lpos, toks>>
SReset(t) == pc[t] = "start" /\ OpOf[t] = "ser" /\ SetFlags(t, AllFalse) /\ pc' = [pc EXCEPT ![t] = "outer"]
             /\ UNCHANGED <<queue, avail, final, cur, err>> /\ UNCHANGED SerVars
SOuter(t) == /\ pc[t] = "outer"
             /\ LET un == {a \in Nodes : ~Flag(t)[a]} IN
                IF un = {} THEN pc' = [pc EXCEPT ![t] = "assert"] /\ UNCHANGED queue
                ELSE pc' = [pc EXCEPT ![t] = "pop"] /\ queue' = [queue EXCEPT ![t] = <<Min(un)>>]
             /\ UNCHANGED <<flags, lflags, avail, final, cur, err>> /\ UNCHANGED SerVars
SPop(t) == /\ pc[t] = "pop"
           /\ IF queue[t] = <<>> THEN pc' = [pc EXCEPT ![t] = "outer"] /\ UNCHANGED <<queue, cur>>
              ELSE LET a == Head(queue[t]) IN
                   /\ queue' = [queue EXCEPT ![t] = Tail(@)]
                   /\ IF Flag(t)[a] THEN pc' = pc /\ cur' = cur
                      ELSE pc' = [pc EXCEPT ![t] = "assign"] /\ cur' = [cur EXCEPT ![t] = a]
           /\ UNCHANGED <<flags, lflags, avail, final, err>> /\ UNCHANGED SerVars
SAssign(t) == /\ pc[t] = "assign"
              /\ LET a == cur[t]  c == FinalPart[a] IN
                 IF avail[t][c] = <<>> THEN err' = [err EXCEPT ![t] = "IndexError"] /\ pc' = [pc EXCEPT ![t] = "crashed"] /\ UNCHANGED <<avail, final>>
                 ELSE /\ final' = [final EXCEPT ![t] = Append(@, <<a, Head(avail[t][c])>>)]
                      /\ avail' = [avail EXCEPT ![t][c] = Tail(@)]
                      /\ pc' = [pc EXCEPT ![t] = "mark"] /\ err' = err
              /\ UNCHANGED <<flags, lflags, queue, cur>> /\ UNCHANGED SerVars
SMark(t) == /\ pc[t] = "mark"
            /\ LET a == cur[t]
                   eqn == {b \in AdjC[a] : FinalPart[a] = FinalPart[b]}  gtn == {b \in AdjC[a] : FinalPart[a] > FinalPart[b]}
                   ltn == {b \in AdjC[a] : FinalPart[a] < FinalPart[b]} IN
               /\ SetFlags(t, [Flag(t) EXCEPT ![a] = TRUE])
               /\ queue' = [queue EXCEPT ![t] = @ \o SortAsc(eqn) \o SortAsc(gtn) \o SortAsc(ltn)]
            /\ pc' = [pc EXCEPT ![t] = "pop"] /\ UNCHANGED <<avail, final, cur, err>> /\ UNCHANGED SerVars
SAssert(t) == /\ pc[t] = "assert"
              /\ IF Len(final[t]) = N THEN pc' = [pc EXCEPT ![t] = "cleanup"] /\ err' = err
                 ELSE pc' = [pc EXCEPT ![t] = "crashed"] /\ err' = [err EXCEPT ![t] = "AssertionError"]
              /\ UNCHANGED <<flags, lflags, queue, avail, final, cur>> /\ UNCHANGED SerVars
SCleanup(t) == pc[t] = "cleanup" /\ SetFlags(t, AllFalse) /\ pc' = [pc EXCEPT ![t] = "done"]
               /\ UNCHANGED <<queue, avail, final, cur, err>> /\ UNCHANGED SerVars

\* ---------------------------------------------------------------- canonicalize: initial colours, then rounds until the class count stops growing
PartOf(t) == IF PartOn = "argument" THEN spart ELSE lpart[t]
SetPart(t, p) == IF PartOn = "argument" THEN spart' = p /\ lpart' = lpart ELSE lpart' = [lpart EXCEPT ![t] = p] /\ spart' = spart
CanVars == <<flags, lflags, queue, avail, final, cur, ppos, lpos, toks>>
CStart(t) == pc[t] = "start" /\ OpOf[t] = "canon" /\ SetPart(t, Round(Col)) /\ prev' = [prev EXCEPT ![t] = MaxOf(Round(Col))]
             /\ pc' = [pc EXCEPT ![t] = "refine"] /\ err' = err /\ UNCHANGED CanVars
CRefine(t) == /\ pc[t] = "refine"
              /\ LET q == Round(PartOf(t)) IN
                 IF MaxOf(q) = prev[t] THEN /\ pc' = [pc EXCEPT ![t] = "done"] /\ SetPart(t, q) /\ prev' = prev
                 ELSE /\ SetPart(t, q) /\ prev' = [prev EXCEPT ![t] = MaxOf(q)] /\ pc' = pc
              /\ err' = err /\ UNCHANGED CanVars

\* ---------------------------------------------------------------- parse: consume the tokens of the input through a read position
PosOf(t) == IF ParserState = "shared" THEN ppos ELSE lpos[t]
SetPos(t, v) == IF ParserState = "shared" THEN ppos' = v /\ lpos' = lpos ELSE lpos' = [lpos EXCEPT ![t] = v] /\ ppos' = ppos
ParVars == <<flags, lflags, queue, avail, final, cur, spart, lpart, prev>>
PStart(t) == pc[t] = "start" /\ OpOf[t] = "parse" /\ SetPos(t, 1) /\ toks' = [toks EXCEPT ![t] = <<>>]
             /\ pc' = [pc EXCEPT ![t] = "lex"] /\ err' = err /\ UNCHANGED ParVars
PLex(t) == /\ pc[t] = "lex"
           /\ IF PosOf(t) > Len(Input) THEN pc' = [pc EXCEPT ![t] = "done"] /\ UNCHANGED <<ppos, lpos, toks>>
              ELSE /\ toks' = [toks EXCEPT ![t] = Append(@, Input[PosOf(t)])] /\ SetPos(t, PosOf(t) + 1) /\ pc' = pc
           /\ err' = err /\ UNCHANGED ParVars

StepOf(t) == SReset(t) \/ SOuter(t) \/ SPop(t) \/ SAssign(t) \/ SMark(t) \/ SAssert(t) \/ SCleanup(t)
             \/ CStart(t) \/ CRefine(t) \/ PStart(t) \/ PLex(t)
Next == \E t \in T : StepOf(t)
Spec == Init /\ [][Next]_vars

\* ---------------------------------------------------------------- every completed operation returns its sequential result
RECURSIVE SeqSer(_)
SeqSer(st) ==       \* the BFS run alone: st = [fl, q, av, fin]
  LET un == {a \in Nodes : ~st.fl[a]} IN
  IF st.q = <<>> THEN (IF un = {} THEN st.fin ELSE SeqSer([st EXCEPT !.q = <<Min(un)>>]))
  ELSE LET a == Head(st.q) IN
       IF st.fl[a] THEN SeqSer([st EXCEPT !.q = Tail(st.q)])
       ELSE LET c == FinalPart[a]
                eqn == {b \in AdjC[a] : FinalPart[a] = FinalPart[b]}  gtn == {b \in AdjC[a] : FinalPart[a] > FinalPart[b]}
                ltn == {b \in AdjC[a] : FinalPart[a] < FinalPart[b]}
            IN SeqSer([fl |-> [st.fl EXCEPT ![a] = TRUE], q |-> Tail(st.q) \o SortAsc(eqn) \o SortAsc(gtn) \o SortAsc(ltn),
                       av |-> [st.av EXCEPT ![c] = Tail(@)], fin |-> Append(st.fin, <<a, Head(st.av[c])>>)])
SerSequential == SeqSer([fl |-> AllFalse, q |-> <<>>, av |-> Avail0, fin |-> <<>>])
NoCrash == \A t \in T : pc[t] # "crashed"
SameAsSequential ==
  \A t \in T : pc[t] = "done" =>
     CASE OpOf[t] = "ser" -> final[t] = SerSequential
       [] OpOf[t] = "canon" -> PartOf(t) = FinalPart
       [] OTHER -> toks[t] = Input
====
