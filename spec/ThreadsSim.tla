---- MODULE ThreadsSim ----
(* Behaviours of the thread model as schedules for the replayer (spec -> code): the sequence of thread ids of a behaviour
   is printed when every thread has finished; the harness scales each model step of a thread to the line events of the
   corresponding real operation and runs the real calls under exactly that interleaving (harness/sched.py).             *)
EXTENDS MC_Threads, Json
VARIABLE hist
SimInit == Init /\ hist = <<>>
SimNext == \E t \in T : StepOf(t) /\ hist' = Append(hist, t)
SimSpec == SimInit /\ [][SimNext]_<<vars, hist>>
AllFinished == \A t \in T : pc[t] \in {"done", "crashed"}
EmitSchedule == AllFinished => PrintT(ToJson([sched |-> hist, ok |-> (\A t \in T : pc[t] = "done")]))
====
