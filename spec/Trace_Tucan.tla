---- MODULE Trace_Tucan ----
(* Trace validation: sessions recorded from the real code (harness/record.py) are replayed through
   the actions of Tucan.  One initial state per session; every event of a session must be
   explained by an action (otherwise the session is not reported as done), and the property
   clauses violated along the way are printed with the session id.                            *)
EXTENDS Tucan, Json, IOUtils, TLCExt
Traces == ndJsonDeserialize(IOEnv.CASES)      \* one session per line: [id, ev]
VARIABLES tid, l
tvars == <<vars, tid, l>>
Ev == Traces[tid].ev
TInit == Init /\ tid \in 1..Len(Traces) /\ l = 1
TNext == l <= Len(Ev) /\ Step(Ev[l]) /\ l' = l + 1 /\ UNCHANGED tid
TSpec == TInit /\ [][TNext]_tvars
Done == l = Len(Ev) + 1
\* evaluated in every reachable state (CONSTRAINT): report each finished session once
Report == Done => PrintT(ToJson([id |-> Traces[tid].id, viol |-> viol, n |-> Len(Ev)]))
\* with INVARIANT Holds TLC stops at the first session that violates a property clause
Holds == NoViolation
====
