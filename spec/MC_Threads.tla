---- MODULE MC_Threads ----
EXTENDS Threads
\* methanol-like canonical graph: H H H H C O  (0..3 H on C except 3 on O), classes from refinement
AdjMethanol == [a \in 0..5 |-> CASE a = 0 -> {4} [] a = 1 -> {4} [] a = 2 -> {4} [] a = 3 -> {5} [] a = 4 -> {0, 1, 2, 5} [] OTHER -> {3, 4}]
ColMethanol == [a \in 0..5 |-> IF a <= 3 THEN 0 ELSE IF a = 4 THEN 1 ELSE 2]
AdjWater == [a \in 0..2 |-> IF a = 2 THEN {0, 1} ELSE {2}]
ColWater == [a \in 0..2 |-> IF a = 2 THEN 1 ELSE 0]
AdjChain == [a \in 0..5 |-> {b \in 0..5 : b = a + 1 \/ b = a - 1}]
ColChain == [a \in 0..5 |-> 0]
Ops2 == [t \in {1, 2} |-> IF t = 1 THEN "ser" ELSE "ser"]
OpsSerCanon == [t \in {1, 2} |-> IF t = 1 THEN "ser" ELSE "canon"]
OpsCanon2 == [t \in {1, 2} |-> "canon"]
OpsParse2 == [t \in {1, 2} |-> "parse"]
OpsMixed3 == [t \in {1, 2, 3} |-> IF t = 1 THEN "ser" ELSE IF t = 2 THEN "canon" ELSE "parse"]
OpsSer3 == [t \in {1, 2, 3} |-> "ser"]
====
