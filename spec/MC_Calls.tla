---- MODULE MC_Calls ----
(* Design-level model of call HISTORIES (C12, C14-histories, the registries of C01 / C04): the user holds one small molecule
   and may, in any order and any number of times up to MaxLen calls, canonicalize any graph he holds (inputs, results,
   relabelled copies), serialize any canonical graph, parse any string he got, relabel any graph, or edit an input graph in
   place (toggle one bond).  Every call is answered by the specification's own algorithms and goes through Tucan!Step, so the
   invariant says: whatever the history, no property clause is ever violated -- in particular repeated calls give the same
   result (registries), results of calls on results stay consistent, and an in-place edit starts a new molecule.

   Objects are numbered 1, 2, ... in the order in which they come into being; kind[k] is "graph" (an input or a relabelled
   copy), "canon" (a result of canonicalize), "string".  strText[k] is the text of a string object.                      *)
EXTENDS Tucan, Bliss
CONSTANTS MaxLen, MaxObjs, Start      \* Start: index into Molecules
VARIABLES kind, strText, steps
cvars == <<vars, kind, strText, steps>>

Mk(n, cols, E) ==
  [n |-> n, z |-> [a \in 1..n |-> cols[a][1]], sym |-> [a \in 1..n |-> ByZ[cols[a][1]]],
   mass |-> [a \in 1..n |-> cols[a][2]], rad |-> [a \in 1..n |-> cols[a][3]],
   hasm |-> [a \in 1..n |-> cols[a][2] # 0], hasr |-> [a \in 1..n |-> cols[a][3] # 0], part |-> [a \in 1..n |-> 0],
   adj |-> [a \in 1..n |-> {b \in 1..n : <<a, b>> \in E \/ <<b, a>> \in E}], tag |-> [a \in 1..n |-> a],
   attr |-> [a \in 1..n |-> "atom" \o ToString(a)], mattr |-> [a \in 1..n |-> "atom" \o ToString(a)],
   chg |-> [a \in 1..n |-> 0], ord |-> [a \in 1..n |-> a], ebag |-> {<<e[1], e[2], "bond">> : e \in E}]
Molecules == <<
  Mk(3, << <<1, 0, 0>>, <<1, 2, 0>>, <<8, 0, 0>> >>, {<<1, 3>>, <<2, 3>>}),                 \* HDO
  Mk(3, << <<6, 0, 0>>, <<6, 0, 0>>, <<6, 13, 2>> >>, {<<1, 2>>, <<2, 3>>, <<1, 3>>}),       \* a labelled three-ring
  Mk(4, << <<6, 0, 0>>, <<6, 0, 0>>, <<17, 0, 0>>, <<1, 0, 0>> >>, {<<1, 2>>, <<2, 3>>}),    \* C-C-Cl and a lone H
  Mk(2, << <<2, 3, 0>>, <<2, 0, 0>> >>, {})                                                  \* 3He + He, no bonds
>>
NewId == Cardinality(DOMAIN kind) + 1
Room == steps < MaxLen /\ Cardinality(DOMAIN kind) < MaxObjs
Graphs == {k \in DOMAIN kind : kind[k] \in {"graph", "canon"}}

CInit == /\ Init /\ kind = <<>> /\ strText = <<>> /\ steps = 0
CStart == /\ kind = <<>>
          /\ Step([op |-> "input", obj |-> 1, g |-> Molecules[Start]])
          /\ kind' = (1 :> "graph") /\ UNCHANGED <<strText, steps>>
CCanon == /\ Room
          /\ \E k \in Graphs : \E f \in CanonLabellings(WithPart(objs[k])) :
               /\ Step([op |-> "canon", arg |-> k, ret |-> NewId, g |-> SpecCanonicalize(objs[k], f), before |-> objs[k], after |-> objs[k]])
          /\ kind' = kind @@ (NewId :> "canon") /\ steps' = steps + 1 /\ UNCHANGED strText
CSer == /\ Room
        /\ \E k \in {x \in DOMAIN kind : kind[x] = "canon"} :
             LET s == SerializeMolecule(objs[k]) IN
             /\ Step([op |-> "ser", arg |-> k, ret |-> s, before |-> objs[k], after |-> objs[k]])
             /\ strText' = strText @@ (NewId :> s)
        /\ kind' = kind @@ (NewId :> "string") /\ steps' = steps + 1
CParse == /\ Room
          /\ \E k \in {x \in DOMAIN kind : kind[x] = "string"} :
               LET D == Denote(strText[k]) IN
               Step([op |-> "parse", s |-> strText[k], ret |-> NewId,
                     g |-> [DenoteGraph(D) EXCEPT !.tag = [i \in 1..D.n |-> 100 * NewId + i]]])
          /\ kind' = kind @@ (NewId :> "graph") /\ steps' = steps + 1 /\ UNCHANGED strText
CRelabel == /\ Room
            /\ \E k \in Graphs : \E f \in {[a \in 1..objs[k].n |-> IF a = objs[k].n THEN 1 ELSE a + 1]} :      \* the n-cycle
                 Step([op |-> "derive", obj |-> NewId, from |-> k, kind |-> "relabel", perm |-> [i \in 1..objs[k].n |-> f[i] - 1], g |-> Apply(objs[k], f)])
            /\ kind' = kind @@ (NewId :> "graph") /\ steps' = steps + 1 /\ UNCHANGED strText
Toggle(G, a, b) == [G EXCEPT !.adj = [x \in 1..G.n |-> IF x = a THEN (IF b \in G.adj[a] THEN G.adj[a] \ {b} ELSE G.adj[a] \cup {b})
                                                       ELSE IF x = b THEN (IF a \in G.adj[b] THEN G.adj[b] \ {a} ELSE G.adj[b] \cup {a}) ELSE G.adj[x]],
                             !.ebag = IF b \in G.adj[a] THEN {e \in G.ebag : ~(e[1] = a /\ e[2] = b)} ELSE G.ebag \cup {<<a, b, "bond">>}]
CEdit == /\ steps < MaxLen
         /\ \E k \in {x \in DOMAIN kind : kind[x] = "graph"} : objs[k].n >= 2 /\
              Step([op |-> "mutate", obj |-> k, g |-> Toggle(objs[k], 1, 2), newcls |-> 500 + 10 * k + steps])
         /\ steps' = steps + 1 /\ UNCHANGED <<kind, strText>>
CNext == CStart \/ CCanon \/ CSer \/ CParse \/ CRelabel \/ CEdit
CSpec == CInit /\ [][CNext]_cvars
\* no property clause, no harness fault; refinement-mode clauses cannot occur either (the answers ARE the specification's)
HistoriesHold == viol = {}
\* repeating a call on an unchanged object never yields a second string for its molecule
OneStringPerClass == \A p, q \in sers : p[1] = q[1] => p[2] = q[2]
====
