---- MODULE Size ----
(* Termination and depth of the pipeline (C15), scaled down.

   refine_partitions runs one round per iteration; in the pinned tree each round was one more frame on the
   interpreter's stack (recursion + generator delegation), so StackLimit = k models "the stack has room for k
   rounds": the action StackOverflow is enabled when another round is needed at depth = StackLimit.  An iterative
   implementation has StackLimit = Unbounded.  Checked for ALL graphs (one colour) with N atoms:
     RoundsBounded   the loop needs at most N \div 2 + 2 calls of the partitioning step   (so it terminates)
     NoCrash         pc never becomes "crashed"  (holds iff StackLimit is Unbounded or large enough)
     BfsComplete     the final relabelling assigns exactly N labels (no IndexError / AssertionError)      *)
EXTENDS MolGraph, Refine, FinalLabels, Serialize
CONSTANTS N, StackLimit
Unbounded == -1
VARIABLES G, part, depth, pc, bfs
svars == <<G, part, depth, pc, bfs>>
Pairs(n) == {<<a, b>> \in (1..n) \X (1..n) : a < b}
Mk(E) == [n |-> N, z |-> [a \in 1..N |-> 6], sym |-> [a \in 1..N |-> "C"], mass |-> [a \in 1..N |-> 0], rad |-> [a \in 1..N |-> 0],
          hasm |-> [a \in 1..N |-> FALSE], hasr |-> [a \in 1..N |-> FALSE], part |-> [a \in 1..N |-> 0],
          adj |-> [a \in 1..N |-> {b \in 1..N : <<a, b>> \in E \/ <<b, a>> \in E}], tag |-> [a \in 1..N |-> a],
          attr |-> [a \in 1..N |-> ""], mattr |-> [a \in 1..N |-> ""], chg |-> [a \in 1..N |-> 0], ord |-> [a \in 1..N |-> a], ebag |-> {}]
SInit == /\ G \in {Mk(E) : E \in SUBSET Pairs(N)} /\ part = <<>> /\ depth = 0 /\ pc = "init" /\ bfs = <<>>
PartInit == pc = "init" /\ part' = InitialPartition(G) /\ depth' = 1 /\ pc' = "refine" /\ UNCHANGED <<G, bfs>>
RefineRound ==
  /\ pc = "refine" /\ (StackLimit = Unbounded \/ depth < StackLimit)
  /\ LET p2 == RefineOnce(G, part) IN
     /\ part' = p2 /\ depth' = depth + 1
     /\ pc' = IF MaxOf(p2) = MaxOf(part) THEN "bfs" ELSE "refine"
  /\ UNCHANGED <<G, bfs>>
StackOverflow == pc = "refine" /\ StackLimit # Unbounded /\ depth >= StackLimit /\ pc' = "crashed" /\ UNCHANGED <<G, part, depth, bfs>>
BfsStart == pc = "bfs" /\ bfs = <<>> /\ bfs' = BfsInit([G EXCEPT !.part = part]) /\ UNCHANGED <<G, part, depth, pc>>
BfsAct == /\ pc = "bfs" /\ bfs # <<>>
          /\ LET K == [G EXCEPT !.part = part] IN
             IF BfsDone(K, bfs) THEN pc' = (IF bfs.err = "none" THEN "done" ELSE "crashed") /\ bfs' = bfs
             ELSE bfs' = BfsStep(K, bfs) /\ pc' = pc
          /\ UNCHANGED <<G, part, depth>>
SNext == PartInit \/ RefineRound \/ StackOverflow \/ BfsStart \/ BfsAct
SSpec == SInit /\ [][SNext]_svars
RoundsBounded == depth <= (N \div 2) + 2
NoCrash == pc # "crashed"
BfsComplete == pc = "done" => /\ IsPerm(bfs.final, N) /\ FinalKeepsClasses([G EXCEPT !.part = part], bfs.final)
\* ---- the step machine agrees with the functional definitions, and its steps are well-behaved
K0 == [G EXCEPT !.part = part]
\* every round refines the previous partition and keeps the order of the classes (action property)
RoundsRefine == [][(pc = "refine" /\ pc' \in {"refine", "bfs"}) => Refines(part', part)]_svars
\* labels are handed out once, inside the atom's own class, and only to explored atoms
BfsWellBehaved ==
  (pc = "bfs" /\ bfs # <<>>) =>
     /\ \A a \in Atoms(G) : (bfs.final[a] # 0) <=> bfs.explored[a]
     /\ \A a, b \in Atoms(G) : (a # b /\ bfs.final[a] # 0) => bfs.final[a] # bfs.final[b]
     /\ \A a \in Atoms(G) : bfs.final[a] # 0 => part[bfs.final[a]] = part[a]
     /\ \A c \in Classes(K0) : Len(bfs.avail[c]) + Cardinality({a \in Atoms(G) : part[a] = c /\ bfs.explored[a]}) = Cardinality({a \in Atoms(G) : part[a] = c})
     /\ Len(bfs.queue) <= 2 * NumEdges(G) + 1
StepMachineIsTheFunction ==
  pc = "done" => /\ part = FinalPartition(G) /\ depth = Rounds(G) + 1
                 /\ bfs.final = FinalLabelMap(K0)
                 /\ WriteTucan(SortedByZ(TLCEval(Apply(K0, bfs.final)))) = SerializeMolecule(K0)
\* the refinement depth really grows with the size of a chain: a path of N >= 3 atoms needs (N+1) \div 2 partitioning calls
PathNeeds == LET P == Mk({<<a, a + 1>> : a \in 1..(N - 1)}) IN N < 3 \/ Rounds(P) + 1 = (N + 1) \div 2
ASSUME PathNeeds
====
