---- MODULE Permute ----
(* graph_utils.permute_molecule (C16): seed the generator, shuffle the labels, relabel a copy, rebuild it in label order;
   if the molecule has at least two bonds and is not complete, retry while the edge set is unchanged.
   The random generator is abstracted to "any permutation may come next"; what is checked is every state in which
   the helper can return:
     Faithful     the result is the argument under the chosen permutation (all data carried along), listed in label order
     Enforced     when enforcement applies, the returned edge set differs from the argument's
     CanChange    enforcement can be satisfied at all: some permutation changes the edge set (else the loop spins)   *)
EXTENDS MolGraph
CONSTANTS N
VARIABLES G, cand, pi, pc, tries
pvars == <<G, cand, pi, pc, tries>>
PPairs == {<<a, b>> \in (1..N) \X (1..N) : a < b}
MkP(E) == [n |-> N, z |-> [a \in 1..N |-> 6], sym |-> [a \in 1..N |-> "C"], mass |-> [a \in 1..N |-> IF a = 1 THEN 13 ELSE 0], rad |-> [a \in 1..N |-> 0],
           hasm |-> [a \in 1..N |-> a = 1], hasr |-> [a \in 1..N |-> FALSE], part |-> [a \in 1..N |-> 0],
           adj |-> [a \in 1..N |-> {b \in 1..N : <<a, b>> \in E \/ <<b, a>> \in E}], tag |-> [a \in 1..N |-> a],
           attr |-> [a \in 1..N |-> "atom" \o ToString(a)], mattr |-> [a \in 1..N |-> ""], chg |-> [a \in 1..N |-> a % 2],
           ord |-> [a \in 1..N |-> a], ebag |-> {<<e[1], e[2], "bond">> : e \in E}]
Enforce(g) == NumEdges(g) > 1 /\ NumEdges(g) * 2 # g.n * (g.n - 1)
Rebuilt(g, f) == [Apply(g, f) EXCEPT !.ord = [i \in 1..g.n |-> i]]          \* _sort_molecule_by_label
PInit == G \in {MkP(E) : E \in SUBSET PPairs} /\ cand = <<>> /\ pi = <<>> /\ pc = "shuffle" /\ tries = 0
Shuffle == /\ pc = "shuffle" /\ tries < 2
           /\ \E f \in Perms(N) : pi' = f /\ cand' = Rebuilt(G, f)
           /\ pc' = "test" /\ tries' = tries + 1 /\ UNCHANGED G
Test == /\ pc = "test"
        /\ pc' = IF Enforce(G) /\ cand.adj = G.adj THEN "shuffle" ELSE "return"
        /\ UNCHANGED <<G, cand, pi, tries>>
PSpec == PInit /\ [][Shuffle \/ Test]_pvars
Faithful == pc = "return" => /\ IsPerm(pi, N) /\ IsColourIso(G, cand, pi) /\ \A a \in 1..N : cand.attr[pi[a]] = G.attr[a] /\ cand.chg[pi[a]] = G.chg[a]
                             /\ cand.ebag = Apply(G, pi).ebag /\ \A i \in 1..N : cand.ord[i] = i
Enforced == (pc = "return" /\ Enforce(G)) => cand.adj # G.adj
CanChange == Enforce(G) => \E f \in Perms(N) : Apply(G, f).adj # G.adj
====
