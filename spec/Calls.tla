---- MODULE Calls ----
(* Call scripts (spec -> code for histories): which public calls a user can make on which objects, as a state
   machine over object kinds.  TLC's simulator walks it; every walk is a script the replayer executes on real objects
   (harness/drivers.py: run_script), logging one Tucan event per call, so that arbitrary histories -- repeated calls on the
   same objects, calls on results of calls, in-place edits in between, permutations -- are validated by Trace_Tucan.   *)
EXTENDS Integers, Sequences, FiniteSets, TLC, Json
CONSTANTS MaxObjs, MaxLen
VARIABLES kind, script
cvars == <<kind, script>>
Objs == DOMAIN kind
New == Cardinality(Objs) + 1
Room == Cardinality(Objs) < MaxObjs /\ Len(script) < MaxLen
CInit == kind = (1 :> "graph") /\ script = <<>>
Call(name, o, makes) ==
  /\ Len(script) < MaxLen
  /\ IF makes = "none" THEN /\ kind' = kind /\ script' = Append(script, <<name, o, 0>>)
     ELSE /\ Cardinality(Objs) < MaxObjs
          /\ kind' = kind @@ (New :> makes) /\ script' = Append(script, <<name, o, New>>)
Canon(o) == kind[o] \in {"graph", "canon"} /\ Call("canon", o, "canon")
Ser(o) == kind[o] = "canon" /\ Call("ser", o, "string")
Parse(o) == kind[o] = "string" /\ Call("parse", o, "graph")
Relabel(o) == kind[o] \in {"graph", "canon"} /\ Call("relabel", o, "graph")
NxRelabel(o) == kind[o] \in {"graph", "canon"} /\ Call("nxrelabel", o, "graph")
Permute(o) == kind[o] \in {"graph", "canon"} /\ Call("permute", o, "graph")
Edit(o) == kind[o] = "graph" /\ Call("edit", o, "none")
Write(o) == kind[o] \in {"graph", "canon"} /\ Call("write", o, "graph")      \* write a molfile and read it back
CNext == \E o \in Objs : Canon(o) \/ Ser(o) \/ Parse(o) \/ Relabel(o) \/ NxRelabel(o) \/ Permute(o) \/ Edit(o) \/ Write(o)
CSpec == CInit /\ [][CNext]_cvars
\* well-formedness of scripts (what the replayer relies on)
ScriptOK == \A i \in 1..Len(script) : script[i][2] \in Objs /\ (script[i][3] # 0 => script[i][3] \in Objs)
Finished == Len(script) = MaxLen \/ Cardinality(Objs) = MaxObjs
EmitScript == Finished => PrintT(ToJson([script |-> script]))
====
