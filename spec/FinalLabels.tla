---- MODULE FinalLabels ----
(* serialization.py: _assign_final_labels.  A breadth-first relabelling of the canonical graph K
   (atom ids = canonical label + 1, K.part = partition classes):

     outer loop   start a component at the smallest unexplored atom
     inner loop   take the oldest queue entry (deque.pop() / extendleft() is a FIFO);
                  skip it if explored; else give it the smallest free label of its class,
                  mark it, and enqueue its neighbours: same class, then smaller classes,
                  then larger classes, each group ascending.

   st = [explored, queue, avail, final, err]; `final[a] = 0` means "not yet assigned".
   err models the two ways the loop can fail in the code: pop() on an exhausted class
   ("IndexError") and the closing assertion ("AssertionError").                              *)
EXTENDS MolGraph

Classes(K) == {K.part[a] : a \in Atoms(K)}
Avail0(K) == [c \in Classes(K) |-> SortAsc({a \in Atoms(K) : K.part[a] = c})]
BfsInit(K) == [explored |-> [a \in Atoms(K) |-> FALSE], queue |-> <<>>,
               avail |-> Avail0(K), final |-> [a \in Atoms(K) |-> 0], err |-> "none"]
Unexplored(K, st) == {a \in Atoms(K) : ~st.explored[a]}
BfsDone(K, st) == st.err # "none" \/ (st.queue = <<>> /\ Unexplored(K, st) = {})

EnqueueOrder(K, a) ==
  LET eqn == {b \in K.adj[a] : K.part[a] = K.part[b]}
      gtn == {b \in K.adj[a] : K.part[a] > K.part[b]}
      ltn == {b \in K.adj[a] : K.part[a] < K.part[b]}
  IN SortAsc(eqn) \o SortAsc(gtn) \o SortAsc(ltn)

StartComponent(K, st) == [st EXCEPT !.queue = <<Min(Unexplored(K, st))>>]
PopSkip(K, st) == [st EXCEPT !.queue = Tail(st.queue)]
PopAssign(K, st) ==
  LET a == Head(st.queue)  c == K.part[a] IN
  IF st.avail[c] = <<>> THEN [st EXCEPT !.err = "IndexError"]
  ELSE [explored |-> [st.explored EXCEPT ![a] = TRUE],
        queue    |-> Tail(st.queue) \o EnqueueOrder(K, a),
        avail    |-> [st.avail EXCEPT ![c] = Tail(@)],
        final    |-> [st.final EXCEPT ![a] = Head(st.avail[c])],
        err      |-> "none"]
BfsStepKind(K, st) == IF st.queue = <<>> THEN "start"
                      ELSE IF st.explored[Head(st.queue)] THEN "skip" ELSE "assign"
BfsStep(K, st) == CASE BfsStepKind(K, st) = "start" -> StartComponent(K, st)
                    [] BfsStepKind(K, st) = "skip" -> PopSkip(K, st)
                    [] OTHER -> PopAssign(K, st)
RECURSIVE BfsRun(_, _)
BfsRun(K, st) == IF BfsDone(K, st) THEN st ELSE BfsRun(K, TLCEval(BfsStep(K, st)))
FinalLabelMap(K) == BfsRun(K, BfsInit(K)).final

\* facts about the result that downstream relies on
FinalIsPerm(K, f) == IsPerm(f, K.n)
FinalKeepsClasses(K, f) ==      \* each class keeps its own set of labels
  \A c \in Classes(K) : {f[a] : a \in {x \in Atoms(K) : K.part[x] = c}} = {x \in Atoms(K) : K.part[x] = c}
====
