---- MODULE Grammar ----
(* A reference reader for TUCAN strings, written from the published EBNF (tucan.ebnf), at
   character level:

     tucan ::= sum_formula "/" tuples ("/" node_attributes)?

   Lex     maximal-munch tokenizer over the EBNF terminals (element symbols, "(", ")", "-", ":",
           ",", "=", "/", "mass", "rad", numbers without leading zero);  "?" = lexical error
   Syntax  recognizer: Hill-order formula (counts >= 2), tuples, attribute blocks (values >= 1)
   Denote  the molecule a sentence states, or the class of rejection:
           "syntax", "selfloop", "index", "duplicate"
   Shares no code with the library or with ANTLR.                                           *)
EXTENDS Integers, Sequences, FiniteSets, TLC, SequencesExt, FiniteSetsExt, Functions, Elements

Ch(s, i) == IF i >= 1 /\ i <= Len(s) THEN SubSeq(s, i, i) ELSE ""
Upper == {"A","B","C","D","E","F","G","H","I","J","K","L","M","N","O","P","Q","R","S","T","U","V","W","X","Y","Z"}
Lower == {"a","b","c","d","e","f","g","h","i","j","k","l","m","n","o","p","q","r","s","t","u","v","w","x","y","z"}
Digits == {"0","1","2","3","4","5","6","7","8","9"}
Punct == {"/","(",")","-",":",",","="}
DigitVal == [c \in Digits |-> CHOOSE d \in 0..9 : ToString(d) = c]

RECURSIVE DigitRun(_, _)
DigitRun(s, i) == IF Ch(s, i + 1) \in Digits THEN 1 + DigitRun(s, i + 1) ELSE 1     \* length of the digit run starting at i
\* token length at position i; 0 = lexical error
TokLen(s, i) ==
  LET c == Ch(s, i) IN
  IF c \in Upper THEN (IF Ch(s, i+1) \in Lower /\ SubSeq(s, i, i+1) \in SymSet THEN 2
                       ELSE IF c \in SymSet THEN 1 ELSE 0)
  ELSE IF c \in Punct THEN 1
  ELSE IF c \in Digits THEN (IF c = "0" THEN 0
                             ELSE DigitRun(s, i))
  ELSE IF i + 3 <= Len(s) /\ SubSeq(s, i, i+3) = "mass" THEN 4
  ELSE IF i + 2 <= Len(s) /\ SubSeq(s, i, i+2) = "rad" THEN 3
  ELSE 0
\* left to right, one token after the other; the first character that starts no token ends the scan with "?"
\* (a fold over the character positions: st.next = where the next token starts)
LexFold(s) ==
  FoldLeft(LAMBDA st, i :
             IF st.bad \/ i < st.next THEN st
             ELSE LET k == TokLen(s, i) IN
                  IF k = 0 THEN [next |-> i, toks |-> Append(st.toks, "?"), bad |-> TRUE]
                  ELSE [next |-> i + k, toks |-> Append(st.toks, SubSeq(s, i, i + k - 1)), bad |-> FALSE],
           [next |-> 1, toks |-> <<>>, bad |-> FALSE], [i \in 1..Len(s) |-> i])
Lex(s) == LexFold(s).toks

IsNum(t) == Ch(t, 1) \in Digits
IsSym(t) == t \in SymSet
BigNum == 100000000     \* numerals below 10^8 denote their value; TLC integers are 32 bit, so a larger numeral n travels as
                        \* 10^8 + (n mod 10^9), i.e. 10^8 + its last nine digits (harness/project.py: fingerprint does the same to
                        \* the implementation's integers): large numbers that differ in their low digits stay different
RECURSIVE StripZeros(_)
StripZeros(t) == IF Len(t) > 1 /\ Ch(t, 1) = "0" THEN StripZeros(SubSeq(t, 2, Len(t))) ELSE t
RECURSIVE PlainVal(_)
PlainVal(t) == IF Len(t) = 0 THEN 0 ELSE 10 * PlainVal(SubSeq(t, 1, Len(t)-1)) + DigitVal[Ch(t, Len(t))]
NumVal(t) == LET u == StripZeros(t) IN
             IF Len(u) <= 8 THEN PlainVal(u) ELSE BigNum + PlainVal(SubSeq(u, Len(u) - 8, Len(u)))

\* ---------- recognizer ----------
SlashPos(T) == {i \in 1..Len(T) : T[i] = "/"}
FormulaOK(F) ==
  LET symPos == {i \in 1..Len(F) : IsSym(F[i])}
      hasC   == Len(F) > 0 /\ F[1] = "C"
  IN /\ \A i \in 1..Len(F) : IsSym(F[i]) \/ (IsNum(F[i]) /\ F[i] # "1" /\ i > 1 /\ IsSym(F[i-1]))
     /\ (~hasC => "C" \notin {F[i] : i \in symPos})
     /\ \A i, j \in symPos : i < j => HillRank(F[i], hasC) < HillRank(F[j], hasC)
TuplesOK(U) ==
  /\ Len(U) % 5 = 0
  /\ \A k \in 0..(Len(U) \div 5 - 1) :
        LET b == 5 * k IN U[b+1] = "(" /\ IsNum(U[b+2]) /\ U[b+3] = "-" /\ IsNum(U[b+4]) /\ U[b+5] = ")"
GroupEnds(A) == {i \in 1..Len(A) : A[i] = ")"}
GroupStart(A, e) == LET prev == {j \in GroupEnds(A) : j < e} IN IF prev = {} THEN 1 ELSE Max(prev) + 1
GroupOK(A, b, e) ==
  LET L == e - b + 1 IN
  /\ L >= 7 /\ (L - 7) % 4 = 0
  /\ A[b] = "(" /\ IsNum(A[b+1]) /\ A[b+2] = ":"
  /\ \A j \in 0..((L-7) \div 4) :
        LET q == b + 3 + 4 * j IN
        A[q] \in {"mass", "rad"} /\ A[q+1] = "=" /\ IsNum(A[q+2]) /\ (A[q+3] = (IF q + 3 = e THEN ")" ELSE ","))
AttrsOK(A) == /\ (Len(A) > 0 => A[Len(A)] = ")")
              /\ \A e \in GroupEnds(A) : GroupOK(A, GroupStart(A, e), e)
Split(T) ==
  LET sp == SetToSortSeq(SlashPos(T), <) IN
  IF Len(sp) = 1 THEN [ok |-> TRUE, F |-> SubSeq(T, 1, sp[1]-1), U |-> SubSeq(T, sp[1]+1, Len(T)), A |-> <<>>]
  ELSE IF Len(sp) = 2 THEN [ok |-> TRUE, F |-> SubSeq(T, 1, sp[1]-1), U |-> SubSeq(T, sp[1]+1, sp[2]-1),
                            A |-> SubSeq(T, sp[2]+1, Len(T))]
  ELSE [ok |-> FALSE, F |-> <<>>, U |-> <<>>, A |-> <<>>]
Syntax(T) == LET p == Split(T) IN
  "?" \notin {T[i] : i \in 1..Len(T)} /\ p.ok /\ FormulaOK(p.F) /\ TuplesOK(p.U) /\ AttrsOK(p.A)
IsSentence(s) == Syntax(Lex(s))

\* ---------- denotation ----------
Items(F) ==     \* <<z, count>> in textual order
  LET symPos == SetToSortSeq({i \in 1..Len(F) : IsSym(F[i])}, <) IN
  [k \in 1..Len(symPos) |-> <<ZOf[F[symPos[k]]],
        IF symPos[k] < Len(F) /\ IsNum(F[symPos[k]+1]) THEN NumVal(F[symPos[k]+1]) ELSE 1>>]
ItemsByZ(F) == SortSeq(Items(F), LAMBDA x, y : x[1] < y[1])
RECURSIVE Expand(_)
Expand(it) == IF it = <<>> THEN <<>> ELSE [k \in 1..it[1][2] |-> it[1][1]] \o Expand(Tail(it))
ZSeqOf(F) == Expand(ItemsByZ(F))     \* atom i (1-based) has atomic number ZSeqOf(F)[i]
NumAtoms(F) == LET it == Items(F) IN FoldLeft(LAMBDA acc, x : IF acc + x[2] > BigNum THEN BigNum ELSE acc + x[2], 0, it)
BondList(U) == [k \in 1..(Len(U) \div 5) |-> <<NumVal(U[5*(k-1)+2]), NumVal(U[5*(k-1)+4])>>]
Triples(A) ==   \* <<index, key, value>> in textual order
  LET keyPos == SetToSortSeq({i \in 1..Len(A) : A[i] \in {"mass", "rad"}}, <)
      IdxOf(q) == LET opens == {j \in 1..q : A[j] = "("} IN NumVal(A[Max(opens)+1])
  IN [k \in 1..Len(keyPos) |-> <<IdxOf(keyPos[k]), A[keyPos[k]], NumVal(A[keyPos[k]+2])>>]

MaxExpand == 5000   \* above this many atoms Denote reports size only (keeps TLC values small)
Denote(s) ==
  LET T == Lex(s) IN
  IF ~Syntax(T) THEN [acc |-> FALSE, why |-> "syntax"] ELSE
  LET p == Split(T)  n == NumAtoms(p.F)  bl == BondList(p.U)  tr == Triples(p.A) IN
  IF \E k \in 1..Len(bl) : bl[k][1] = bl[k][2] THEN [acc |-> FALSE, why |-> "selfloop"]
  ELSE IF \E k \in 1..Len(bl) : bl[k][1] > n \/ bl[k][2] > n THEN [acc |-> FALSE, why |-> "index"]
  ELSE IF \E j, k \in 1..Len(tr) : j < k /\ tr[j][1] = tr[k][1] /\ tr[j][2] = tr[k][2]
       THEN [acc |-> FALSE, why |-> "duplicate"]
  ELSE IF \E k \in 1..Len(tr) : tr[k][1] > n THEN [acc |-> FALSE, why |-> "index"]
  ELSE [acc |-> TRUE, n |-> n,
        z |-> IF n <= MaxExpand THEN ZSeqOf(p.F) ELSE <<>>,
        bonds |-> {{bl[k][1], bl[k][2]} : k \in 1..Len(bl)},
        mass |-> {<<tr[k][1], tr[k][3]>> : k \in {j \in 1..Len(tr) : tr[j][2] = "mass"}},
        rad  |-> {<<tr[k][1], tr[k][3]>> : k \in {j \in 1..Len(tr) : tr[j][2] = "rad"}}]
====
