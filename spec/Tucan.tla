---- MODULE Tucan ----
(* TUCAN as a system with state: a user session.

   The state is what a user can hold and observe: graph objects (objs), the strings and canonical
   graphs the library has returned for them, and which objects are *known* to describe the same
   molecule (cls: classes of verified derivations -- a relabelling is accepted only after the
   specification has applied the permutation itself and compared).  Every public call of the
   library is one action; its argument is an *event* record

       [op |-> "canon", arg |-> 3, ret |-> 4, g |-> <graph>, after |-> <graph>, ...]

   In the bounded models (MC_Tucan*.tla) the events are produced by the specification's own
   algorithms (Refine, FinalLabels, Serialize, Grammar) for every small molecule and every
   generator of the relabelling group.  In trace validation (Trace_Tucan.tla) the events are read
   from a log recorded from the real code.  Both go through the same actions, so the properties
   below are evaluated by TLC on the same definitions in both directions.

   viol  accumulates the names of violated property clauses ("C01:...").  Clauses starting with
         "H:" are failures of the harness' own obligations (a derivation that does not verify),
         clauses starting with "R:" are refinement-mode differences (the code did something the
         properties allow but the specification's algorithm does not: "spec drift").           *)
EXTENDS MolGraph, Refine, Serialize, Grammar, MolV2000

VARIABLES objs,     \* object id -> graph record (MolGraph)
          cls,      \* object id -> class id; equal class = verified same molecule (identity level)
          root,     \* object id -> [atom -> atom of the class's first object]
          prov,     \* object id -> [cl, g, pstr]: whose molecule an object stands for in the pipeline.  A canonicalized
                    \*   graph stands for the molecule that was handed to canonicalize_molecule (cl = its class, g = its
                    \*   value at that moment), whatever the call returned; pstr = the string a parsed graph was read from
          strOf,    \* class id -> TUCAN string first returned for it   (partial: DOMAIN = seen)
          canonOf,  \* class id -> labelled summary of the first canonical graph
          rootPart, \* class id -> [root atom -> partition class] from the first canonicalization
          sers,     \* set of <<class id, string, graph>> of all serializations so far
          strs,     \* string id -> [s, cl]  strings the session knows (serialized, respelled, typed in)
          mols,     \* object id -> the molecule the specification decodes from the text the object was read from
          results,  \* key -> value : generic registry "same input, same result" (C14, C16)
          viol      \* set of violated clause names
vars == <<objs, cls, root, prov, strOf, canonOf, rootPart, sers, strs, mols, results, viol>>

CONSTANTS RLimit,    \* refinement mode (recompute with the spec's algorithm) for graphs up to this size
          BFLimit    \* brute-force isomorphism / automorphism up to this size

Init == /\ objs = <<>> /\ cls = <<>> /\ root = <<>> /\ prov = <<>> /\ strOf = <<>> /\ canonOf = <<>> /\ rootPart = <<>>
        /\ sers = {} /\ strs = <<>> /\ mols = <<>> /\ results = <<>> /\ viol = {}

\* ------------------------------------------------------------------ reading event records
MkGraph(r) ==
  LET n == r.n IN
  [n |-> n,
   z    |-> TLCEval([i \in 1..n |-> r.atoms[i].z]),
   sym  |-> TLCEval([i \in 1..n |-> r.atoms[i].sym]),
   mass |-> TLCEval([i \in 1..n |-> r.atoms[i].m]),
   rad  |-> TLCEval([i \in 1..n |-> r.atoms[i].r]),
   hasm |-> TLCEval([i \in 1..n |-> r.atoms[i].hm]),
   hasr |-> TLCEval([i \in 1..n |-> r.atoms[i].hr]),
   part |-> TLCEval([i \in 1..n |-> r.atoms[i].p]),
   adj  |-> TLCEval([i \in 1..n |-> {r.adj[i][j] + 1 : j \in 1..Len(r.adj[i])}]),
   tag  |-> TLCEval([i \in 1..n |-> r.atoms[i].tag]),
   attr |-> TLCEval([i \in 1..n |-> r.atoms[i].attr]),
   mattr |-> TLCEval([i \in 1..n |-> r.atoms[i].mattr]),
   chg  |-> TLCEval([i \in 1..n |-> r.atoms[i].c]),
   ord  |-> TLCEval([i \in 1..n |-> r.order[i] + 1]),
   ebag |-> {<<r.edges[j][1] + 1, r.edges[j][2] + 1, r.edges[j][3]>> : j \in 1..Len(r.edges)}]
\* events carry graphs either as raw JSON records (trace validation) or as graph records (bounded models)
GraphOf(x) == IF "atoms" \in DOMAIN x THEN MkGraph(x) ELSE x
PermOf(arr) == TLCEval([i \in 1..Len(arr) |-> arr[i] + 1])      \* 0-based labels -> 1-based atoms
Has(r, f) == f \in DOMAIN r
Known(f, k) == k \in DOMAIN f

\* ------------------------------------------------------------------ small helpers
IdentityEq(G, H) ==      \* same colours and bonds, atom by atom
  /\ G.n = H.n
  /\ \A a \in Atoms(G) : Colour(G, a) = Colour(H, a) /\ G.adj[a] = H.adj[a]
CarriesAll(G, H) ==      \* ... and every attribute of atoms and bonds
  /\ IdentityEq(G, H) /\ \A a \in Atoms(G) : G.attr[a] = H.attr[a]
  /\ G.ebag = H.ebag
Summary(K) == [n |-> K.n, col |-> [a \in Atoms(K) |-> Colour(K, a)], part |-> K.part, adj |-> K.adj]
\* atoms are traced through the unique tags: sort both graphs' <<tag, atom>> pairs and line them up (n log n)
TagPairs(G) == SetToSortSeq({<<G.tag[a], a>> : a \in Atoms(G)}, LAMBDA x, y : x[1] < y[1] \/ (x[1] = y[1] /\ x[2] < y[2]))
TagsTraceable(G, R) ==
  /\ G.n = R.n
  /\ LET g == TagPairs(G)  r == TagPairs(R) IN
     /\ \A i \in 1..G.n : g[i][1] # 0 /\ g[i][1] = r[i][1]
     /\ \A i \in 1..(G.n - 1) : g[i][1] # g[i + 1][1]
SigmaByTag(G, R) ==
  LET g == TagPairs(G)  r == TagPairs(R)
      m == SetToSortSeq({<<g[i][2], r[i][2]>> : i \in 1..G.n}, LAMBDA x, y : x[1] < y[1])
  IN TLCEval([a \in Atoms(G) |-> m[a][2]])
Compose(g, f, n) == TLCEval([a \in 1..n |-> g[f[a]]])               \* first f, then g
DenoteGraph(D) ==        \* the molecule a sentence states, as a graph record (identity fields only)
  LET n == D.n
      MassOf(i) == LET S == {p \in D.mass : p[1] = i} IN IF S = {} THEN 0 ELSE (CHOOSE p \in S : TRUE)[2]
      RadOf(i)  == LET S == {p \in D.rad : p[1] = i} IN IF S = {} THEN 0 ELSE (CHOOSE p \in S : TRUE)[2]
  IN [n |-> n, z |-> D.z, sym |-> TLCEval([i \in 1..n |-> ByZ[D.z[i]]]),
      mass |-> TLCEval([i \in 1..n |-> MassOf(i)]), rad |-> TLCEval([i \in 1..n |-> RadOf(i)]),
      hasm |-> TLCEval([i \in 1..n |-> MassOf(i) # 0]), hasr |-> TLCEval([i \in 1..n |-> RadOf(i) # 0]),
      part |-> TLCEval([i \in 1..n |-> 0]),
      adj |-> FoldLeft(LAMBDA acc, e : [acc EXCEPT ![Min(e)] = @ \cup {Max(e)}, ![Max(e)] = @ \cup {Min(e)}],
                       [a \in 1..n |-> {}], SetToSeq(D.bonds)),
      tag |-> TLCEval([i \in 1..n |-> 0]), attr |-> TLCEval([i \in 1..n |-> ""]),
      mattr |-> TLCEval([i \in 1..n |-> ""]), chg |-> TLCEval([i \in 1..n |-> 0]),
      ord |-> TLCEval([i \in 1..n |-> i]), ebag |-> {}]
\* decided without search: different atom counts, colour multisets or bond counts; else brute force when small
ColourBag(G) == LET s == SetToSortSeq({<<G.z[a], G.mass[a], G.rad[a], a>> : a \in Atoms(G)},
                                        LAMBDA x, y : SeqLess(<<x[1], x[2], x[3], x[4]>>, <<y[1], y[2], y[3], y[4]>>))
                IN [i \in 1..G.n |-> <<s[i][1], s[i][2], s[i][3]>>]
CertainlyDifferent(G, H) ==
  \/ G.n # H.n \/ NumEdges(G) # NumEdges(H)
  \/ ColourBag(G) # ColourBag(H)
  \/ (G.n <= BFLimit /\ ~Isomorphic(G, H))

\* ------------------------------------------------------------------ C05: canonical layout of a sentence
Ascending(seq, Less(_, _)) == \A i \in 1..(Len(seq) - 1) : Less(seq[i], seq[i+1])
LayoutClauses(s, G) ==
  LET T == Lex(s) IN
  IF ~Syntax(T) THEN {"C05:not-a-sentence"} ELSE
  LET p == Split(T)  bl == BondList(p.U)  tr == Triples(p.A)  it == Items(p.F)
      cnt(z) == Cardinality({a \in Atoms(G) : G.z[a] = z})
      zs == {G.z[a] : a \in Atoms(G)}
      labelled == {a \in Atoms(G) : G.hasm[a] \/ G.hasr[a]}
      blockIdx == [k \in 1..Len(tr) |-> tr[k][1]]
  IN (IF {<<it[k][1], it[k][2]>> : k \in 1..Len(it)} = {<<z, cnt(z)>> : z \in zs} /\ Len(it) = Cardinality(zs)
        THEN {} ELSE {"C05:formula-counts"})
     \cup (IF \A k \in 1..Len(bl) : bl[k][1] < bl[k][2] THEN {} ELSE {"C05:bond-not-a<b"})
     \cup (IF Ascending(bl, EdgeLess) THEN {} ELSE {"C05:bonds-not-ascending-or-repeated"})
     \cup (IF Len(bl) = NumEdges(G) THEN {} ELSE {"C05:bond-count"})
     \cup (IF \A k \in 1..Len(bl) : bl[k][1] >= 1 /\ bl[k][2] <= G.n THEN {} ELSE {"C05:bond-index-range"})
     \cup (IF Ascending(blockIdx, LAMBDA x, y : x <= y) THEN {} ELSE {"C05:attribute-blocks-not-ascending"})
     \cup (IF \A j, k \in 1..Len(tr) : (j < k /\ tr[j][1] = tr[k][1]) => tr[j][2] # tr[k][2]
             THEN {} ELSE {"C05:attribute-repeated"})
     \cup (IF \A k \in 1..Len(tr) : tr[k][3] >= 1 /\ tr[k][1] >= 1 /\ tr[k][1] <= G.n THEN {} ELSE {"C05:attribute-value-or-index"})
     \cup (IF Cardinality({tr[k][1] : k \in 1..Len(tr)}) = Cardinality(labelled) THEN {} ELSE {"C05:attribute-block-count"})
     \* one block per atom: the "(" idx ":" openers are as many as distinct indices
     \cup (IF Cardinality({i \in 1..Len(p.A) : p.A[i] = ":"}) = Cardinality({tr[k][1] : k \in 1..Len(tr)})
             THEN {} ELSE {"C05:attribute-block-split"})

\* ------------------------------------------------------------------ actions
NewObj(k) == k \notin DOMAIN objs

\* the user makes a graph (from a file, by hand): nothing is claimed about it
Input(e) ==
  /\ e.op = "input" /\ NewObj(e.obj)
  /\ LET G == GraphOf(e.g) IN
     /\ objs' = objs @@ (e.obj :> G)
     /\ cls' = cls @@ (e.obj :> e.obj)
     /\ root' = root @@ (e.obj :> [a \in Atoms(G) |-> a])
     /\ prov' = prov @@ (e.obj :> [cl |-> e.obj, g |-> G, rt |-> [a \in Atoms(G) |-> a], pstr |-> ""])
     /\ viol' = viol \cup (IF WellFormed(G) THEN {} ELSE {"H:malformed-input"})
  /\ UNCHANGED <<strOf, canonOf, rootPart, sers, strs, mols, results>>

\* --- graph_from_molecule(atom dictionaries, bond dictionaries) -> obj: the constructor the readers and the parser use, and a user
\* who assembles a molecule by hand.  e.atoms = the atom dictionaries in the order of their keys (z, m, r, ... and attrx = rendering
\* of every entry except the derived ones), e.bonds = <<position, position, rendering>>.  The result lists the atoms 0..n-1 in that
\* order, carries every entry, states the invariant code (Z, mass or 0, radical or 0) afresh -- whatever code the dictionaries brought
\* along -- and has exactly the given bonds.  None of the listed properties is about this call alone: deviations are reported as R:.
BuildClauses(e) ==
  LET n == Len(e.atoms)  r == e.g IN
  IF r.n # n THEN {"R:build-changes-the-number-of-atoms"} ELSE
     (IF r.labs = [i \in 1..n |-> i - 1] /\ r.order = [i \in 1..n |-> i - 1] THEN {} ELSE {"R:build-does-not-number-the-atoms-0..n-1-in-key-order"})
  \cup (IF \A i \in 1..n : r.atoms[i].attrx = e.atoms[i].attrx THEN {} ELSE {"R:build-does-not-carry-the-entries-of-the-dictionaries"})
  \cup (IF \A i \in 1..n : r.atoms[i].ic = <<e.atoms[i].z, e.atoms[i].m, e.atoms[i].r>> THEN {} ELSE {"R:build-invariant-code-is-not-(Z,mass,rad)"})
  \cup (IF {<<r.edges[j][1], r.edges[j][2], r.edges[j][3]>> : j \in 1..Len(r.edges)} = {<<e.bonds[j][1], e.bonds[j][2], e.bonds[j][3]>> : j \in 1..Len(e.bonds)}
          THEN {} ELSE {"R:build-bonds-differ-from-the-dictionaries"})
Build(e) ==
  /\ e.op = "build" /\ NewObj(e.obj)
  /\ LET G == GraphOf(e.g) IN
     /\ objs' = objs @@ (e.obj :> G)
     /\ cls' = cls @@ (e.obj :> e.obj)
     /\ root' = root @@ (e.obj :> [a \in Atoms(G) |-> a])
     /\ prov' = prov @@ (e.obj :> [cl |-> e.obj, g |-> G, rt |-> [a \in Atoms(G) |-> a], pstr |-> ""])
     /\ viol' = viol \cup (IF WellFormed(G) THEN {} ELSE {"H:malformed-input"}) \cup BuildClauses(e)
  /\ UNCHANGED <<strOf, canonOf, rootPart, sers, strs, mols, results>>

\* the user presents another description of a known molecule.  kind "relabel": atoms renumbered
\* (perm), listing order / bond orientation changed, all data carried along.  kind "nonidentity":
\* additionally charges, coordinates, bond types, extra attributes may differ (C06).
\* The claim is checked here, not trusted.
Derive(e) ==
  /\ e.op = "derive" /\ NewObj(e.obj) /\ Known(objs, e.from)
  /\ LET G == objs[e.from]  H == GraphOf(e.g)  f == PermOf(e.perm)
         good == IsPerm(f, G.n) /\ H.n = G.n
                 /\ (IF e.kind = "relabel" THEN CarriesAll(Apply(G, f), H) ELSE IdentityEq(Apply(G, f), H))
     IN /\ objs' = objs @@ (e.obj :> H)
        /\ cls' = cls @@ (e.obj :> IF good THEN cls[e.from] ELSE e.obj)
        /\ root' = root @@ (e.obj :> IF good THEN LET fi == InvPerm(f, G.n) IN [b \in Atoms(H) |-> root[e.from][fi[b]]]
                                            ELSE [b \in Atoms(H) |-> b])
        /\ prov' = prov @@ (e.obj :> [cl |-> IF good THEN cls[e.from] ELSE e.obj, g |-> H,
                                     \* the same graph with attributes added (identity renaming) is still "the parse of pstr"
                                     pstr |-> IF good /\ (\A i \in 1..G.n : f[i] = i) THEN prov[e.from].pstr ELSE "",
                                     rt |-> IF good THEN LET fi == InvPerm(f, G.n) IN [b \in Atoms(H) |-> root[e.from][fi[b]]] ELSE [b \in Atoms(H) |-> b]])
        /\ viol' = viol \cup (IF good THEN {} ELSE {"H:derivation-does-not-verify"})
  /\ UNCHANGED <<strOf, canonOf, rootPart, sers, strs, mols, results>>

\* the user edits an object in place (adds / removes atoms or bonds, changes attributes): from now on the
\* object is a new molecule; whatever the library returned for the old value says nothing about it
Mutate(e) ==
  /\ e.op = "mutate" /\ Known(objs, e.obj)
  /\ LET G == GraphOf(e.g) IN
     /\ objs' = [objs EXCEPT ![e.obj] = G]
     /\ cls' = [cls EXCEPT ![e.obj] = e.newcls]
     /\ root' = [root EXCEPT ![e.obj] = [a \in Atoms(G) |-> a]]
     /\ prov' = [prov EXCEPT ![e.obj] = [cl |-> e.newcls, g |-> G, rt |-> [a \in Atoms(G) |-> a], pstr |-> ""]]
     /\ viol' = viol \cup (IF WellFormed(G) /\ e.newcls \notin {cls[k] : k \in DOMAIN cls} THEN {} ELSE {"H:malformed-input"})
  /\ UNCHANGED <<strOf, canonOf, rootPart, sers, strs, mols, results>>

\* a library call left scratch data (attributes that are not chemically meaningful) on an object: the session's copy of the
\* object is refreshed; it is still the same molecule (checked), so its class and provenance stay
Touch(e) ==
  /\ e.op = "touch" /\ Known(objs, e.obj)
  /\ LET G == objs[e.obj]  H == GraphOf(e.g)  good == IdentityEq(G, H) /\ G.mattr = H.mattr /\ G.ord = H.ord IN
     /\ objs' = IF good THEN [objs EXCEPT ![e.obj] = H] ELSE objs
     /\ viol' = viol \cup (IF good THEN {} ELSE {"H:touch-changes-the-molecule"})
  /\ UNCHANGED <<cls, root, prov, strOf, canonOf, rootPart, sers, strs, mols, results>>

\* a library call that is not supposed to touch its argument (the molfile writer, the permutation helper) changed chemically
\* meaningful entries of it in place (e.by names the call).  The session goes on with the object as it now is: the same molecule when
\* colours and bonds are what they were (an explicit 0 is the default), a new one otherwise.  No listed property is about this step
\* alone (R:); what later calls on the object return is judged as usual.
Changed(e) ==
  /\ e.op = "changed" /\ Known(objs, e.obj)
  /\ LET G == objs[e.obj]  H == GraphOf(e.g)  same == IdentityEq(G, H) /\ G.ord = H.ord  fresh == 0 - e.obj IN
     /\ objs' = [objs EXCEPT ![e.obj] = H]
     /\ cls' = IF same THEN cls ELSE [cls EXCEPT ![e.obj] = fresh]
     /\ root' = IF same THEN root ELSE [root EXCEPT ![e.obj] = [a \in Atoms(H) |-> a]]
     /\ prov' = IF same THEN (IF prov[e.obj].g = G THEN [prov EXCEPT ![e.obj].g = H] ELSE prov)
                ELSE [prov EXCEPT ![e.obj] = [cl |-> fresh, g |-> H, rt |-> [a \in Atoms(H) |-> a], pstr |-> ""]]
     /\ viol' = viol \cup {"R:" \o e.by \o "-changed-its-argument"}
  /\ UNCHANGED <<strOf, canonOf, rootPart, sers, strs, mols, results>>

\* two objects are stated to be the same molecule for a reason the specification verified elsewhere
\* (e.g. both were read from texts whose decoded molecules agree): classes are merged
SameMol(e) ==
  /\ e.op = "same" /\ Known(objs, e.a) /\ Known(objs, e.b)
  /\ LET G == objs[e.a]  H == objs[e.b]  f == PermOf(e.perm)
         good == IsColourIso(G, H, f)
         ca == cls[e.a]  cb == cls[e.b]
         merge == good /\ ca # cb
         \* atom y of ca's first object, seen as an atom of cb's first object
         ira == InvPerm(root[e.a], G.n)  irb == InvPerm(root[e.b], H.n)  fi == InvPerm(f, G.n)
         Across(y) == root[e.b][f[ira[y]]]
         \* atom v of cb's first object, seen as an atom of ca's first object
         Tr(v) == root[e.a][fi[irb[v]]]
         rpb == IF merge /\ Known(rootPart, cb) THEN [y \in Atoms(G) |-> rootPart[cb][Across(y)]] ELSE <<>>
     IN /\ viol' = viol
             \cup (IF good THEN {} ELSE {"H:same-molecule-claim-does-not-verify"})
             \cup (IF merge /\ Known(strOf, ca) /\ Known(strOf, cb) /\ strOf[ca] # strOf[cb]
                     THEN {"C01:string-differs-between-descriptions"} ELSE {})
             \cup (IF merge /\ Known(canonOf, ca) /\ Known(canonOf, cb) /\ canonOf[ca] # canonOf[cb]
                     THEN {"C04:labelled-graph-differs-between-descriptions"} ELSE {})
             \cup (IF merge /\ Known(rootPart, ca) /\ Known(rootPart, cb) /\ rootPart[ca] # rpb
                     THEN {"C13:class-depends-on-numbering"} ELSE {})
        /\ cls' = IF merge THEN [k \in DOMAIN cls |-> IF cls[k] = cb THEN ca ELSE cls[k]] ELSE cls
        /\ root' = IF merge
                   THEN [k \in DOMAIN root |-> IF cls[k] = cb
                           THEN [x \in DOMAIN root[k] |-> Tr(root[k][x])]
                           ELSE root[k]]
                   ELSE root
        /\ strOf' = IF merge /\ ~Known(strOf, ca) /\ Known(strOf, cb) THEN strOf @@ (ca :> strOf[cb]) ELSE strOf
        /\ canonOf' = IF merge /\ ~Known(canonOf, ca) /\ Known(canonOf, cb) THEN canonOf @@ (ca :> canonOf[cb]) ELSE canonOf
        /\ rootPart' = IF merge /\ ~Known(rootPart, ca) /\ Known(rootPart, cb) THEN rootPart @@ (ca :> rpb) ELSE rootPart
        /\ sers' = IF merge THEN {<<IF p[1] = cb THEN ca ELSE p[1], p[2], p[3]>> : p \in sers} ELSE sers
        /\ prov' = IF merge THEN [k \in DOMAIN prov |-> IF prov[k].cl = cb
                                   THEN [prov[k] EXCEPT !.cl = ca, !.rt = [x \in DOMAIN prov[k].rt |-> Tr(prov[k].rt[x])]]
                                   ELSE prov[k]] ELSE prov
  /\ UNCHANGED <<objs, strs, mols, results>>

\* --- canonicalize_molecule(arg) -> ret
CanonClauses(e, G, R) ==
  LET traceable == TagsTraceable(G, R)
      sigma == IF traceable THEN SigmaByTag(G, R) ELSE [a \in Atoms(G) |-> a]
      c == cls[e.arg]
      ir == InvPerm(root[e.arg], G.n)
      rp == IF traceable THEN [x \in Atoms(G) |-> R.part[sigma[ir[x]]]] ELSE <<>>
      AG == IF traceable THEN Apply(G, sigma) ELSE G
  IN
  \* C12: a one-to-one renaming onto 0..n-1, nothing lost, argument untouched
     (IF G.n = R.n THEN {} ELSE {"C12:atom-count-changed"})
  \cup (IF Has(e.g, "labs") /\ e.g.labs # [i \in 1..R.n |-> i - 1] THEN {"C04:result-not-numbered-0..n-1"} ELSE {})
  \cup (IF traceable THEN {} ELSE {"C12:atoms-not-traceable(attributes-lost-or-atoms-merged)"})
  \cup (IF traceable /\ ~(\A a \in Atoms(G) : R.attr[sigma[a]] = G.attr[a]) THEN {"C12:atom-attributes-changed"} ELSE {})
  \cup (IF traceable /\ AG.ebag # R.ebag THEN {"C12:bonds-or-bond-attributes-changed"} ELSE {})
  \cup (IF traceable /\ AG.adj # R.adj THEN {"C12:adjacency-changed"} ELSE {})
  \cup (IF Has(e, "after") /\ GraphOf(e.after) # GraphOf(e.before) THEN {"C12:canonicalize-mutated-its-argument"} ELSE {})
  \* C04: same molecule, same labelled graph
  \cup (IF Known(canonOf, c) /\ canonOf[c] # Summary(R) THEN {"C04:labelled-graph-differs-between-descriptions"} ELSE {})
  \* C13
  \cup (IF ClassesDense(R.part) THEN {} ELSE {"R:class-numbers-not-0..k"})         \* the statement does not fix how classes are numbered
  \cup (IF ColourHomogeneous(R, R.part) THEN {} ELSE {"C13:class-mixes-colours"})
  \cup (IF Equitable(R, R.part) THEN {} ELSE {"C13:not-equitable"})
  \cup (IF traceable /\ Known(rootPart, c) /\ rootPart[c] # rp THEN {"C13:class-depends-on-numbering"} ELSE {})
  \cup (IF R.n <= BFLimit /\ ~OrbitRespecting(R, R.part) THEN {"C13:symmetric-atoms-in-different-classes"} ELSE {})
  \* refinement mode: the specification's own algorithm
  \cup (IF traceable /\ G.n <= RLimit /\ [a \in Atoms(G) |-> R.part[sigma[a]]] # FinalPartition(G)
          THEN {"R:partition-differs-from-spec"} ELSE {})
  \cup (IF Has(e, "parts") /\ G.n <= RLimit /\ [k \in 1..Len(e.parts) |-> [a \in 1..Len(e.parts[k]) |-> e.parts[k][a]]] # RefineTrace(G)
          THEN {"R:refinement-rounds-differ-from-spec"} ELSE {})

Canonicalize(e) ==
  /\ e.op = "canon" /\ Known(objs, e.arg) /\ NewObj(e.ret)
  /\ LET G == objs[e.arg]  R == GraphOf(e.g)  c == cls[e.arg]
         traceable == TagsTraceable(G, R)
         sigma == IF traceable THEN SigmaByTag(G, R) ELSE [a \in Atoms(G) |-> a]
     IN /\ viol' = viol \cup CanonClauses(e, G, R)
        /\ objs' = objs @@ (e.ret :> R)
        /\ cls' = cls @@ (e.ret :> IF traceable /\ IsColourIso(G, R, sigma) THEN c ELSE e.ret)
        /\ root' = root @@ (e.ret :> IF traceable /\ G.n = R.n
                                       THEN LET si == InvPerm(sigma, G.n) IN [b \in Atoms(R) |-> root[e.arg][si[b]]]
                                       ELSE [b \in Atoms(R) |-> b])
        /\ prov' = prov @@ (e.ret :> [cl |-> c, g |-> G, rt |-> root[e.arg], pstr |-> prov[e.arg].pstr])
        /\ canonOf' = IF Known(canonOf, c) THEN canonOf ELSE canonOf @@ (c :> Summary(R))
        /\ rootPart' = IF Known(rootPart, c) \/ ~traceable THEN rootPart
                       ELSE rootPart @@ (c :> LET ir == InvPerm(root[e.arg], G.n) IN [x \in Atoms(G) |-> R.part[sigma[ir[x]]]])
  /\ UNCHANGED <<strOf, sers, strs, mols, results>>

\* --- an automorphism of an object, constructed by the driver and verified here (C13 beyond brute force)
Automorphism(e) ==
  /\ e.op = "aut" /\ Known(objs, e.obj)
  /\ LET G == objs[e.obj]  f == PermOf(e.perm) IN
     viol' = viol \cup (IF ~IsColourIso(G, G, f) THEN {"H:claimed-automorphism-does-not-verify"}
                        ELSE IF \E a \in Atoms(G) : G.part[f[a]] # G.part[a]
                             THEN {"C13:symmetric-atoms-in-different-classes"} ELSE {})
  /\ UNCHANGED <<objs, cls, root, prov, strOf, canonOf, rootPart, sers, strs, mols, results>>

\* --- serialize_molecule(arg) -> string
SerClauses(e, G) ==
  \* G = the graph handed to serialize_molecule; Gp = the molecule it stands for in the pipeline (class c)
  LET s == e.ret  c == prov[e.arg].cl  Gp == prov[e.arg].g  D == Denote(s) IN
  (IF Known(strOf, c) /\ strOf[c] # s THEN {"C01:string-differs-between-descriptions"} ELSE {})
  \cup (IF prov[e.arg].pstr # "" /\ prov[e.arg].pstr # s THEN {"C03:not-a-fixed-point-of-the-pipeline"} ELSE {})
  \cup LayoutClauses(s, Gp)          \* the string the pipeline emits for the molecule that was handed to it
  \cup (IF ~D.acc THEN {"C03:emitted-string-is-not-accepted-by-the-grammar(" \o D.why \o ")"}
        ELSE (IF D.n # Gp.n THEN {"C03:atom-count"} ELSE {})
             \cup (IF Cardinality(D.bonds) # NumEdges(Gp) THEN {"C03:bond-count"} ELSE {})
             \cup (IF D.n = Gp.n /\ Has(e, "wit") /\ ~IsColourIso(Gp, DenoteGraph(D), PermOf(e.wit))
                     THEN {"C03:string-does-not-reconstruct-the-molecule"} ELSE {})
             \cup (IF D.n = Gp.n /\ ~Has(e, "wit") /\ Gp.n <= BFLimit /\ ~Isomorphic(Gp, DenoteGraph(D))
                     THEN {"C03:string-does-not-reconstruct-the-molecule"} ELSE {})
             \* beyond brute force: the harness ran its matcher to completion and found no bijection
             \cup (IF D.n = Gp.n /\ ~Has(e, "wit") /\ Gp.n > BFLimit /\ Has(e, "nowit")
                     THEN {"C03:string-does-not-reconstruct-the-molecule"} ELSE {}))
  \cup (IF \E p \in sers : p[2] = s /\ p[1] # c /\ CertainlyDifferent(p[3], Gp)
          THEN {"C02:different-molecules-share-a-string"} ELSE {})
  \cup (IF Has(e, "after") /\ GraphOf(e.after).mattr # GraphOf(e.before).mattr THEN {"C12:serialize-changed-atom-attributes"} ELSE {})
  \cup (IF Has(e, "after") /\ GraphOf(e.after).ebag # GraphOf(e.before).ebag THEN {"C12:serialize-changed-bonds"} ELSE {})
  \cup (IF Has(e, "after") /\ GraphOf(e.after).ord # GraphOf(e.before).ord THEN {"C12:serialize-changed-atom-set-or-order"} ELSE {})
  \cup (IF G.n <= RLimit /\ ClassesDense(G.part) /\ ColourHomogeneous(G, G.part) /\ (\A a \in Atoms(G) : G.sym[a] \in SymSet /\ G.mass[a] < BigNum /\ G.rad[a] < BigNum)
          /\ SerializeMolecule(G) # s
          THEN {"R:string-differs-from-spec"} ELSE {})

Serialize(e) ==
  /\ e.op = "ser" /\ Known(objs, e.arg) /\ Has(e, "ret")
  /\ LET G == objs[e.arg]  c == prov[e.arg].cl IN
     /\ viol' = viol \cup SerClauses(e, G)
     /\ strOf' = IF Known(strOf, c) THEN strOf ELSE strOf @@ (c :> e.ret)
     /\ sers' = sers \cup {<<c, e.ret, prov[e.arg].g>>}
  /\ UNCHANGED <<objs, cls, root, prov, canonOf, rootPart, strs, mols, results>>

\* --- serialize_molecule on a graph that is not a result of canonicalize_molecule (a partitioned graph the library handed out,
\* a canonical graph the user renumbered): the string need not be the molecule's identifier, so nothing enters the registries;
\* the call must return (C15, recorded as "raised" otherwise) and leave its argument alone (C12)
SerializeRaw(e) ==
  /\ e.op = "serraw" /\ Known(objs, e.arg) /\ Has(e, "ret")
  /\ viol' = viol
       \cup (IF GraphOf(e.after).mattr # GraphOf(e.before).mattr THEN {"C12:serialize-changed-atom-attributes"} ELSE {})
       \cup (IF GraphOf(e.after).ebag # GraphOf(e.before).ebag THEN {"C12:serialize-changed-bonds"} ELSE {})
       \cup (IF GraphOf(e.after).ord # GraphOf(e.before).ord THEN {"C12:serialize-changed-atom-set-or-order"} ELSE {})
       \cup (IF Denote(e.ret).acc THEN {} ELSE {"R:string-of-a-non-canonical-graph-is-not-a-sentence"})
  /\ UNCHANGED <<objs, cls, root, prov, strOf, canonOf, rootPart, sers, strs, mols, results>>

\* --- a library call ended with an exception where the properties demand a normal return (C15 and others)
Raised(e) ==
  /\ e.op = "raised"
  /\ viol' = viol \cup {e.clause}
  /\ UNCHANGED <<objs, cls, root, prov, strOf, canonOf, rootPart, sers, strs, mols, results>>

\* --- a library call on an input too large to be validated in full returned normally (C15: event-level validation)
Completed(e) ==
  /\ e.op = "completed"
  /\ UNCHANGED vars

\* the layout rules that can be judged on the string alone
StringLayoutClauses(s) ==
  LET T == Lex(s) IN
  IF ~Syntax(T) THEN {"C05:not-a-sentence"} ELSE
  LET p == Split(T)  bl == BondList(p.U)  tr == Triples(p.A)  n == NumAtoms(p.F) IN
     (IF \A k \in 1..Len(bl) : bl[k][1] < bl[k][2] THEN {} ELSE {"C05:bond-not-a<b"})
     \cup (IF Ascending(bl, EdgeLess) THEN {} ELSE {"C05:bonds-not-ascending-or-repeated"})
     \cup (IF \A k \in 1..Len(bl) : bl[k][1] >= 1 /\ bl[k][2] <= n THEN {} ELSE {"C05:bond-index-range"})
     \cup (IF Ascending([k \in 1..Len(tr) |-> tr[k][1]], LAMBDA x, y : x <= y) THEN {} ELSE {"C05:attribute-blocks-not-ascending"})
     \cup (IF \A j, k \in 1..Len(tr) : (j < k /\ tr[j][1] = tr[k][1]) => tr[j][2] # tr[k][2] THEN {} ELSE {"C05:attribute-repeated"})
     \cup (IF \A k \in 1..Len(tr) : tr[k][3] >= 1 /\ tr[k][1] >= 1 /\ tr[k][1] <= n THEN {} ELSE {"C05:attribute-value-or-index"})

\* --- the pipeline emitted a string for a molecule the projection cannot state (e.g. a reader produced a non-integer mass):
\* the string is judged on its own
Emitted(e) ==
  /\ e.op = "emitted"
  /\ viol' = viol \cup StringLayoutClauses(e.s)
  /\ UNCHANGED <<objs, cls, root, prov, strOf, canonOf, rootPart, sers, strs, mols, results>>

\* --- graph_from_tucan(s) -> ret | exception
ParseClauses(e, D) ==
  IF D.acc THEN
     IF Has(e, "exc") THEN {"C10:valid-sentence-rejected"}
     ELSE IF D.n > MaxExpand THEN (IF GraphOf(e.g).n = D.n THEN {} ELSE {"C10:atoms-differ-from-formula"})
     ELSE LET P == GraphOf(e.g)  H == DenoteGraph(D) IN
          (IF P.n = H.n /\ P.z = H.z /\ P.sym = H.sym THEN {} ELSE {"C10:atoms-differ-from-formula"})
          \cup (IF P.n = H.n /\ P.adj = H.adj THEN {} ELSE {"C10:bonds-differ"})
          \cup (IF P.n = H.n /\ P.mass = H.mass /\ P.rad = H.rad /\ P.hasm = H.hasm /\ P.hasr = H.hasr
                  THEN {} ELSE {"C10:attributes-differ"})
  ELSE IF ~Has(e, "exc") THEN {"C10:invalid-string-accepted(" \o D.why \o ")"}
       ELSE IF e.exc # "TucanParserException" THEN {"C10:rejected-with-unrelated-error"} ELSE {}

Parse(e) ==
  /\ e.op = "parse"
  /\ LET D == Denote(e.s) IN
     /\ viol' = viol \cup ParseClauses(e, D)
             \* the string was returned for object `of`: its parse must be that molecule again (the harness looked for a
             \* bijection with a complete matcher; TLC checks the one it found)
             \cup (IF Has(e, "of") /\ Known(objs, e.of) /\ Has(e, "g")
                      /\ (IF Has(e, "wit") THEN ~IsColourIso(prov[e.of].g, GraphOf(e.g), PermOf(e.wit)) ELSE Has(e, "nowit"))
                     THEN {"C03:parsed-graph-is-not-the-molecule-the-string-was-made-for"} ELSE {})
             \cup (IF Has(e, "of") /\ Known(objs, e.of) /\ Has(e, "exc")
                     THEN {"C03:string-produced-for-a-molecule-is-rejected-by-the-parser"} ELSE {})
     /\ IF Has(e, "g") /\ NewObj(e.ret)
        THEN LET P == GraphOf(e.g)
                 \* the string came out of Serialize(of) and the harness supplied the witness: verified => same molecule
                 linked == Has(e, "of") /\ Known(objs, e.of) /\ Has(e, "wit") /\ prov[e.of].g.n = P.n
                           /\ IsColourIso(prov[e.of].g, P, PermOf(e.wit))
                    pc == IF linked THEN prov[e.of].cl ELSE IF Has(e, "sid") /\ Known(strs, e.sid) THEN strs[e.sid].cl ELSE e.ret
                    rt == IF linked THEN LET wi == InvPerm(PermOf(e.wit), P.n) IN [b \in Atoms(P) |-> prov[e.of].rt[wi[b]]] ELSE [b \in Atoms(P) |-> b]
             IN /\ objs' = objs @@ (e.ret :> P)
                /\ cls' = cls @@ (e.ret :> pc)
                /\ root' = root @@ (e.ret :> rt)
                /\ prov' = prov @@ (e.ret :> [cl |-> pc, g |-> P, rt |-> rt, pstr |-> IF linked THEN e.s ELSE ""])
        ELSE UNCHANGED <<objs, cls, root, prov>>
  /\ UNCHANGED <<strOf, canonOf, rootPart, sers, strs, mols, results>>

\* --- C11: the session learns a string / a respelling of a known string (verified on the denotations)
StringIn(e) ==
  /\ e.op = "string" /\ ~Known(strs, e.sid)
  /\ strs' = strs @@ (e.sid :> [s |-> e.s, cl |-> 1000000 + e.sid])
  /\ UNCHANGED <<objs, cls, root, prov, strOf, canonOf, rootPart, sers, mols, results, viol>>
Respell(e) ==
  /\ e.op = "respell" /\ ~Known(strs, e.sid) /\ Known(strs, e.from)
  /\ LET D1 == Denote(strs[e.from].s)  D2 == Denote(e.s)
         good == D1.acc /\ D2.acc /\ D1.n = D2.n /\ IsColourIso(DenoteGraph(D1), DenoteGraph(D2), PermOf(e.imap))
     IN /\ strs' = strs @@ (e.sid :> [s |-> e.s, cl |-> IF good THEN strs[e.from].cl ELSE 1000000 + e.sid])
        /\ viol' = viol \cup (IF good THEN {} ELSE {"H:respelling-does-not-preserve-the-molecule"})
  /\ UNCHANGED <<objs, cls, root, prov, strOf, canonOf, rootPart, sers, mols, results>>

\* --- generic registry: the same operation on the same input returned something else (C14, C16)
Result(e) ==
  /\ e.op = "result"
  /\ viol' = viol \cup (IF Known(results, e.key) /\ results[e.key] # e.val THEN {e.clause} ELSE {})
  /\ results' = IF Known(results, e.key) THEN results ELSE results @@ (e.key :> e.val)
  /\ UNCHANGED <<objs, cls, root, prov, strOf, canonOf, rootPart, sers, strs, mols>>

\* --- permute_molecule(arg, seed) -> ret   (C16)
PermuteClauses(e, G, R) ==
  LET traceable == TagsTraceable(G, R)
      sigma == IF traceable THEN SigmaByTag(G, R) ELSE [a \in Atoms(G) |-> a]
      complete == NumEdges(G) * 2 = G.n * (G.n - 1)
  IN (IF G.n = R.n /\ (Has(e.g, "labs") /\ Has(e.before, "labs") => e.g.labs = e.before.labs) THEN {} ELSE {"C16:label-set-changed"})
  \cup (IF traceable THEN {} ELSE {"C16:atoms-not-traceable(attributes-lost-or-atoms-merged)"})
  \cup (IF traceable /\ ~CarriesAll(Apply(G, sigma), [R EXCEPT !.part = Apply(G, sigma).part]) THEN {"C16:not-a-faithful-relabelled-copy"} ELSE {})
  \cup (IF traceable /\ Apply(G, sigma).part # R.part THEN {"C16:partition-attribute-not-carried"} ELSE {})
  \cup (IF \A i \in 1..R.n : R.ord[i] = i THEN {} ELSE {"C16:atoms-not-listed-in-label-order"})
  \cup (IF GraphOf(e.after) = GraphOf(e.before) THEN {} ELSE {"C16:argument-mutated"})
  \cup (IF NumEdges(G) >= 2 /\ ~complete /\ G.n = R.n /\ R.adj = G.adj THEN {"C16:edge-set-unchanged"} ELSE {})
Permute(e) ==
  /\ e.op = "permute" /\ Known(objs, e.arg) /\ NewObj(e.ret)
  /\ LET G == objs[e.arg]  R == GraphOf(e.g)
         traceable == TagsTraceable(G, R)
         sigma == IF traceable THEN SigmaByTag(G, R) ELSE [a \in Atoms(G) |-> a]
     IN /\ viol' = viol \cup PermuteClauses(e, G, R)
        /\ objs' = objs @@ (e.ret :> R)
        /\ cls' = cls @@ (e.ret :> IF traceable /\ IsColourIso(G, R, sigma) THEN cls[e.arg] ELSE e.ret)
        /\ root' = root @@ (e.ret :> IF traceable THEN LET si == InvPerm(sigma, G.n) IN [b \in Atoms(R) |-> root[e.arg][si[b]]]
                                                       ELSE [b \in Atoms(R) |-> b])
        /\ prov' = prov @@ (e.ret :> [cl |-> IF traceable /\ IsColourIso(G, R, sigma) THEN cls[e.arg] ELSE e.ret, g |-> R, pstr |-> "",
                                     rt |-> IF traceable THEN LET si == InvPerm(sigma, G.n) IN [b \in Atoms(R) |-> root[e.arg][si[b]]] ELSE [b \in Atoms(R) |-> b]])
  /\ UNCHANGED <<strOf, canonOf, rootPart, sers, strs, mols, results>>

\* ------------------------------------------------------------------ molfile texts (C06 - C09)
\* what the implementation read, in the shape of the decoders' result; coordinates as repr(float)
ReadAtoms(r) == [i \in 1..r.n |-> [sym |-> r.atoms[i].sym, chg |-> r.atoms[i].c, rad |-> r.atoms[i].r, mass |-> r.atoms[i].m,
                                   x |-> r.atoms[i].x, y |-> r.atoms[i].y, z |-> r.atoms[i].z_]]
ReadBonds(r) == {<<r.edges[j][1], r.edges[j][2], r.edges[j][4]>> : j \in 1..Len(r.edges)}
\* the decoder's atoms with the coordinate literals replaced by what the harness says float(literal) prints as
Num(fl, lit) == IF lit = "" THEN "0.0" ELSE fl[lit]          \* a blank V2000 coordinate field is zero
Numeric(D, fl) == [i \in 1..Len(D.atoms) |-> [D.atoms[i] EXCEPT !.x = Num(fl, D.atoms[i].x), !.y = Num(fl, D.atoms[i].y), !.z = Num(fl, D.atoms[i].z)]]
LiteralsKnown(D, fl) == \A i \in 1..Len(D.atoms) : ({D.atoms[i].x, D.atoms[i].y, D.atoms[i].z} \ {""}) \subseteq DOMAIN fl
\* which table a text holds is said by the last blank-separated word of its fourth line (trailing blanks do not count);
\* the recorder's own statement of the format (e.fmt) is only cross-checked
RTrim(s) == LET ks == {i \in 1..Len(s) : Chr(s, i) # " "} IN IF ks = {} THEN "" ELSE SubSeq(s, 1, Max(ks))
VersionOf(lines) == IF Len(lines) < 4 THEN "" ELSE
                    LET t == RTrim(lines[4])  bl == {i \in 1..Len(t) : Chr(t, i) = " "} IN
                    IF bl = {} THEN t ELSE SubSeq(t, Max(bl) + 1, Len(t))
DecodeText(e) == LET v == VersionOf(e.lines) IN
                 IF v = "V2000" THEN DecodeV2000(e.lines) ELSE IF v = "V3000" THEN DecodeV3000(e.lines) ELSE DErr("version")
ElementKnown(D) == \A i \in 1..Len(D.atoms) : D.atoms[i].sym \in SymSet

\* graph_from_molfile_text(text) -> obj | exception.   pfx = "C07" (V3000), "C08" (V2000) or "C09" (read-back of a written file)
ReadClauses(e, D) ==
  LET pfx == e.pfx IN
  IF ~D.ok \/ ~ElementKnown(D) THEN {}                  \* not a conformant table: nothing is demanded of the reader
  ELSE IF Has(e, "suffix") /\ e.suffix # ".mol" THEN {}  \* the file API goes by the file's name first
  ELSE IF Has(e, "exc") THEN {pfx \o ":conformant-file-rejected(" \o e.exc \o ")"}
  ELSE IF ~LiteralsKnown(D, e.floats) THEN {"H:coordinate-literal-without-numeric-reading"}
  ELSE LET A == ReadAtoms(e.g)  N == Numeric(D, e.floats) IN
       (IF Len(A) = Len(N) THEN {} ELSE {pfx \o ":number-of-atoms"})
       \cup (IF Len(A) = Len(N) /\ \E i \in 1..Len(A) : A[i].sym # N[i].sym THEN {pfx \o ":element-or-atom-order"} ELSE {})
       \cup (IF Len(A) = Len(N) /\ \E i \in 1..Len(A) : A[i].chg # N[i].chg THEN {pfx \o ":charge"} ELSE {})
       \cup (IF Len(A) = Len(N) /\ \E i \in 1..Len(A) : A[i].rad # N[i].rad THEN {pfx \o ":radical"} ELSE {})
       \cup (IF Len(A) = Len(N) /\ \E i \in 1..Len(A) : A[i].mass # N[i].mass THEN {pfx \o ":isotope-mass"} ELSE {})
       \cup (IF Len(A) = Len(N) /\ \E i \in 1..Len(A) : <<A[i].x, A[i].y, A[i].z>> # <<N[i].x, N[i].y, N[i].z>> THEN {pfx \o ":coordinates"} ELSE {})
       \cup (IF {<<b[1], b[2]>> : b \in ReadBonds(e.g)} = {<<b[1], b[2]>> : b \in D.bonds} THEN {} ELSE {pfx \o ":bonds"})
       \cup (IF ReadBonds(e.g) = D.bonds \/ {<<b[1], b[2]>> : b \in ReadBonds(e.g)} # {<<b[1], b[2]>> : b \in D.bonds} THEN {} ELSE {pfx \o ":bond-types"})
       \* the abstract molecule the text was rendered from, when the driver knows it: the decoder itself is checked too
       \cup (IF Has(e, "mol") /\ ~(D.atoms = e.mol.atoms /\ D.bonds = {<<e.mol.bonds[j][1], e.mol.bonds[j][2], e.mol.bonds[j][3]>> : j \in 1..Len(e.mol.bonds)})
               THEN {"H:reference-decoder-disagrees-with-the-rendered-molecule"} ELSE {})
ReadText(e) ==
  /\ e.op = "read" /\ NewObj(e.obj)
  /\ LET D == DecodeText(e)  v == VersionOf(e.lines) IN
     /\ viol' = viol \cup ReadClauses(e, D)
                     \cup (IF Has(e, "fmt") /\ v \in {"V2000", "V3000"} /\ e.fmt # v THEN {"H:format-stated-by-the-recorder-is-not-the-text's"} ELSE {})
                     \cup (IF v \notin {"V2000", "V3000"} /\ Has(e, "g") THEN {"R:text-without-a-supported-version-word-was-read"} ELSE {})
                     \* graph_from_file takes files named *.mol only
                     \cup (IF Has(e, "suffix") /\ e.suffix # ".mol" /\ Has(e, "g") THEN {"R:file-with-another-suffix-was-read"} ELSE {})
     /\ mols' = mols @@ (e.obj :> D)
     /\ IF Has(e, "g")
        THEN LET G == MkGraph(e.g) IN
             /\ objs' = objs @@ (e.obj :> G) /\ cls' = cls @@ (e.obj :> e.obj)
             /\ root' = root @@ (e.obj :> [a \in Atoms(G) |-> a])
             /\ prov' = prov @@ (e.obj :> [cl |-> e.obj, g |-> G, rt |-> [a \in Atoms(G) |-> a], pstr |-> ""])
        ELSE UNCHANGED <<objs, cls, root, prov>>
  /\ UNCHANGED <<strOf, canonOf, rootPart, sers, strs, results>>

\* two texts state the same molecule at the level TUCAN models (elements, masses, radicals, who is bonded to whom;
\* atom a of the first is atom perm[a] of the second) -- verified on what the SPECIFICATION decodes from the texts,
\* whatever the reader made of them.  Coordinates, charges, bond types, indices, keywords, headers may all differ (C06);
\* with strict = TRUE charges and bond types must agree too (C08: the V2000 and V3000 renderings of one molecule).
SameText(e) ==
  /\ e.op = "sametext" /\ Known(mols, e.a) /\ Known(mols, e.b)
  /\ LET A == mols[e.a]  B == mols[e.b]  f == PermOf(e.perm)
         n == IF A.ok THEN Len(A.atoms) ELSE 0
         good == /\ A.ok /\ B.ok /\ Len(B.atoms) = n /\ IsPerm(f, n)
                 /\ \A i \in 1..n : <<A.atoms[i].sym, A.atoms[i].mass, A.atoms[i].rad>> = <<B.atoms[f[i]].sym, B.atoms[f[i]].mass, B.atoms[f[i]].rad>>
                 /\ {{f[b[1] + 1], f[b[2] + 1]} : b \in A.bonds} = {{b[1] + 1, b[2] + 1} : b \in B.bonds}
                 /\ (e.strict => /\ \A i \in 1..n : A.atoms[i].chg = B.atoms[f[i]].chg
                                  /\ {<<{f[b[1] + 1], f[b[2] + 1]}, b[3]>> : b \in A.bonds} = {<<{b[1] + 1, b[2] + 1}, b[3]>> : b \in B.bonds})
         both == Known(objs, e.a) /\ Known(objs, e.b)
         ca == IF both THEN cls[e.a] ELSE 0   cb == IF both THEN cls[e.b] ELSE 0
         merge == good /\ both /\ ca # cb
     IN /\ viol' = viol
             \cup (IF good THEN {} ELSE {"H:texts-do-not-state-the-same-molecule"})
             \cup (IF merge /\ Known(strOf, ca) /\ Known(strOf, cb) /\ strOf[ca] # strOf[cb]
                     THEN {e.pfx \o ":same-molecule-different-string"} ELSE {})
             \* one of two renderings of one molecule is read, the other rejected (C06: headers, keywords, index values, line ends ...)
             \cup (IF good /\ ElementKnown(A) /\ (Known(objs, e.a) # Known(objs, e.b))
                     THEN {e.pfx \o ":one-rendering-is-read-the-other-rejected"} ELSE {})
             \* presence-sensitive comparison of what the reader returned for the two spellings (explicit defaults, C07)
             \cup (IF good /\ both /\ Has(e, "samegraph") /\ e.samegraph
                      /\ ~(objs[e.a].hasm = objs[e.b].hasm /\ objs[e.a].hasr = objs[e.b].hasr /\ objs[e.a].attr = objs[e.b].attr)
                     THEN {e.pfx \o ":explicit-default-is-not-the-same-as-omitting-it"} ELSE {})
        /\ cls' = IF merge THEN [k \in DOMAIN cls |-> IF cls[k] = cb THEN ca ELSE cls[k]] ELSE cls
        /\ prov' = IF merge THEN [k \in DOMAIN prov |-> IF prov[k].cl = cb THEN [prov[k] EXCEPT !.cl = ca] ELSE prov[k]] ELSE prov
        /\ strOf' = IF merge /\ ~Known(strOf, ca) /\ Known(strOf, cb) THEN strOf @@ (ca :> strOf[cb]) ELSE strOf
        /\ sers' = IF merge THEN {<<IF p[1] = cb THEN ca ELSE p[1], p[2], p[3]>> : p \in sers} ELSE sers
  /\ UNCHANGED <<objs, root, canonOf, rootPart, strs, mols, results>>

\* two texts state DIFFERENT molecules (decided on what the specification decodes: other element / mass / radical counts or another
\* number of bonds); the pipeline must not give them one string (C02 at the level of files)
MolBag(D) == LET s == SetToSortSeq({<<ZOf[D.atoms[i].sym], D.atoms[i].mass, D.atoms[i].rad, i>> : i \in 1..Len(D.atoms)},
                                   LAMBDA x, y : SeqLess(<<x[1], x[2], x[3], x[4]>>, <<y[1], y[2], y[3], y[4]>>))
             IN [i \in 1..Len(s) |-> <<s[i][1], s[i][2], s[i][3]>>]
DistinctText(e) ==
  /\ e.op = "distincttext" /\ Known(mols, e.a) /\ Known(mols, e.b)
  /\ LET A == mols[e.a]  B == mols[e.b]
         differ == A.ok /\ B.ok /\ ElementKnown(A) /\ ElementKnown(B)
                   /\ (MolBag(A) # MolBag(B) \/ Cardinality({<<b[1], b[2]>> : b \in A.bonds}) # Cardinality({<<b[1], b[2]>> : b \in B.bonds}))
         both == Known(objs, e.a) /\ Known(objs, e.b)
     IN viol' = viol
          \cup (IF differ THEN {} ELSE {"H:texts-are-not-known-to-state-different-molecules"})
          \cup (IF differ /\ both /\ Known(strOf, cls[e.a]) /\ Known(strOf, cls[e.b]) /\ strOf[cls[e.a]] = strOf[cls[e.b]]
                  THEN {"C02:different-molecules-share-a-string"} ELSE {})
  /\ UNCHANGED <<objs, cls, root, prov, strOf, canonOf, rootPart, sers, strs, mols, results>>

\* graph_to_molfile(arg) -> text     (lines without the timestamp line 2)
WriteClauses(e, G) ==
  LET D == DecodeV3000(e.lines)  n == G.n IN
  (IF \A i \in 1..Len(e.lines) : Len(e.lines[i]) + 1 <= 80 THEN {} ELSE {"C09:line-longer-than-80-characters"})
  \cup (IF ~D.ok THEN {"C09:written-file-is-not-a-well-formed-V3000-table(" \o D.why \o ")"}
        ELSE (IF Len(D.atoms) = n THEN {} ELSE {"C09:number-of-atoms"})
          \* atoms in the order in which the graph lists them
          \cup (IF Len(D.atoms) = n /\ \E i \in 1..n : LET a == G.ord[i] IN
                     <<D.atoms[i].sym, D.atoms[i].chg, D.atoms[i].rad, D.atoms[i].mass>> # <<G.sym[a], G.chg[a], G.rad[a], G.mass[a]>>
                  THEN {"C09:atom-attributes-or-order"} ELSE {})
          \* e.six[literal] = the literal rounded to six decimals (exact decimal arithmetic, done by the harness); a writer may
          \* print more decimals than six, never a value that differs in the first six
          \* (with calc_coordinates the writer lays the atoms out itself: the stored coordinates are not what it prints)
          \cup (IF ~(Has(e, "calc") /\ e.calc) /\ Len(D.atoms) = n /\ \E i \in 1..n : \E k \in 1..3 :
                       LET lit == <<D.atoms[i].x, D.atoms[i].y, D.atoms[i].z>>[k] IN
                       lit \notin DOMAIN e.six \/ e.six[lit] # e.xyz6[i][k]
                  THEN {"C09:coordinates-not-to-six-decimals"} ELSE {})
          \cup (IF Len(D.atoms) = n /\ {<<{G.ord[b[1] + 1], G.ord[b[2] + 1]}, b[3]>> : b \in D.bonds}
                                      # {<<{e.bonds[j][1] + 1, e.bonds[j][2] + 1}, e.bonds[j][3]>> : j \in 1..Len(e.bonds)}
                  THEN {"C09:bonds-or-bond-types"} ELSE {}))
WriteText(e) ==
  /\ e.op = "write" /\ Known(objs, e.arg)
  /\ viol' = viol \cup WriteClauses(e, objs[e.arg])
  /\ UNCHANGED <<objs, cls, root, prov, strOf, canonOf, rootPart, sers, strs, mols, results>>

Step(e) == \/ Input(e) \/ Derive(e) \/ Mutate(e) \/ Touch(e) \/ SameMol(e) \/ Canonicalize(e) \/ Automorphism(e) \/ Serialize(e)
           \/ Raised(e) \/ Completed(e) \/ Emitted(e) \/ Parse(e) \/ ReadText(e) \/ SameText(e) \/ DistinctText(e) \/ WriteText(e) \/ StringIn(e) \/ Respell(e) \/ Result(e) \/ Permute(e) \/ SerializeRaw(e) \/ Build(e) \/ Changed(e)

\* ------------------------------------------------------------------ the properties, as state predicates
Clean(prefix) == \A c \in viol : SubSeq(c, 1, Len(prefix)) # prefix
NoViolation == \A c \in viol : SubSeq(c, 1, 2) \in {"R:"}
NoHarnessFault == Clean("H:")
P_C01 == Clean("C01:")   P_C02 == Clean("C02:")   P_C03 == Clean("C03:")   P_C04 == Clean("C04:")
P_C05 == Clean("C05:")   P_C10 == Clean("C10:")   P_C12 == Clean("C12:")   P_C13 == Clean("C13:")
P_C16 == Clean("C16:")
====
