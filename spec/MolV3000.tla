---- MODULE MolV3000 ----
(* The V3000 connection table, written from the CTfile format rules (BIOVIA, "CTfile formats"),
   not from the library's reader.

   DecodeV3000(lines)  reference decoder at character level:
       * physical lines "M  V30 ...-" are continued by the next "M  V30 " line (the dash and the
         seven-character prefix of the continuation are removed) before anything else is looked at
       * tokens are separated by runs of blanks
       * line 4 is the V3000 counts line; then BEGIN CTAB, COUNTS na nb ..., BEGIN ATOM, na atom lines,
         END ATOM, and -- if nb > 0 -- BEGIN BOND, nb bond lines, END BOND; whatever follows up to
         "M  END" (Sgroups, collections, 3D objects ...) does not contribute to the molecule
       * atom line:  index type x y z aamap  KEY=value ...   properties in any order, exact keys;
         CHG / RAD / MASS default to 0 and a written 0 means the same as no property;
         type D / T = hydrogen with mass 2 / 3; type "*" = star atom (not an atom of the molecule)
       * bond line:  index type a1 a2  KEY=value ...; a bond to a star atom with
         ENDPTS=(n e1 ... en) stands for n bonds a-e1 ... a-en of that type; without ENDPTS it
         contributes nothing
       * atoms are numbered by their position among the non-star atom lines; indices are arbitrary
         unique positive integers
     result: [ok, atoms: Seq([sym, chg, rad, mass, x, y, z]), bonds: set of <<p, q, type>>, p < q, 0-based]
     (coordinates stay literals: their numeric reading is outside the model)

   RenderV3000(M, c)   the spellings of one abstract molecule M, one per choice record c; the bounded
     model MC_V3000 checks DecodeV3000(RenderV3000(M, c)) = M for every c and hands the texts to
     the replayer.                                                                          *)
EXTENDS Integers, Sequences, FiniteSets, TLC, SequencesExt, FiniteSetsExt, Functions
SubstringKeys == FALSE        \* overridden (<-) by the negative-control configuration

Chr(s, i) == IF i >= 1 /\ i <= Len(s) THEN SubSeq(s, i, i) ELSE ""
StartsWith(s, p) == Len(s) >= Len(p) /\ SubSeq(s, 1, Len(p)) = p
EndsWith(s, p) == Len(s) >= Len(p) /\ SubSeq(s, Len(s) - Len(p) + 1, Len(s)) = p
DigitSet == {"0", "1", "2", "3", "4", "5", "6", "7", "8", "9"}
DigitValue == [c \in DigitSet |-> CHOOSE d \in 0..9 : ToString(d) = c]
RECURSIVE Nat10(_)
Nat10(t) == IF Len(t) = 0 THEN 0 ELSE 10 * Nat10(SubSeq(t, 1, Len(t) - 1)) + DigitValue[Chr(t, Len(t))]
IsNat(t) == Len(t) > 0 /\ Len(t) <= 9 /\ \A i \in 1..Len(t) : Chr(t, i) \in DigitSet
IsDigits(t) == Len(t) > 0 /\ \A i \in 1..Len(t) : Chr(t, i) \in DigitSet       \* any width: atom indices are only compared
RECURSIVE NormIdx(_)
NormIdx(t) == IF Len(t) > 1 /\ Chr(t, 1) = "0" THEN NormIdx(SubSeq(t, 2, Len(t))) ELSE t   \* "007" and "7" are one index
\* property values (CHG, RAD, MASS) of any width: below 10^8 the value itself, above it 10^8 + the last nine digits
\* (the same reading as spec/Grammar.tla: NumVal and harness/project.py: fingerprint -- TLC integers are 32 bit)
NatF(t) == LET u == NormIdx(t) IN IF Len(u) <= 8 THEN Nat10(u) ELSE 100000000 + Nat10(SubSeq(u, Len(u) - 8, Len(u)))
IsInt(t) == IsDigits(t) \/ (Len(t) > 1 /\ Chr(t, 1) \in {"-", "+"} /\ IsDigits(SubSeq(t, 2, Len(t))))
Int10(t) == IF Chr(t, 1) = "-" THEN 0 - NatF(SubSeq(t, 2, Len(t)))
            ELSE IF Chr(t, 1) = "+" THEN NatF(SubSeq(t, 2, Len(t))) ELSE NatF(t)

RECURSIVE CatS(_)
CatS(ss) == IF ss = <<>> THEN "" ELSE ss[1] \o CatS(Tail(ss))
\* tokens of a line = maximal runs of non-blank characters
Tokens(s) ==
  LET L == Len(s)
      starts == {i \in 1..L : Chr(s, i) # " " /\ (i = 1 \/ Chr(s, i-1) = " ")}
      endOf(i) == Min({j \in i..L : j = L \/ Chr(s, j+1) = " "})
      ss == SetToSortSeq(starts, <)
  IN TLCEval([k \in 1..Len(ss) |-> SubSeq(s, ss[k], endOf(ss[k]))])

V30 == "M  V30 "
RECURSIVE Splice(_)
Splice(lines) ==
  IF Len(lines) <= 1 THEN lines
  ELSE LET c == lines[1] IN
       IF ~(StartsWith(c, V30) /\ EndsWith(c, "-")) THEN <<c>> \o Splice(Tail(lines))
       ELSE IF ~StartsWith(lines[2], V30) THEN <<"!ERROR">>
       ELSE Splice(<<SubSeq(c, 1, Len(c) - 1) \o SubSeq(lines[2], 8, Len(lines[2]))>> \o SubSeq(lines, 3, Len(lines)))

\* KEY=value with an exact key; 0 when absent (for CHG, RAD, MASS a written 0 is the default as well).
\* SubstringKeys = TRUE is the pinned tree's reading ("CHG" anywhere in the token: EXACHG=1 counts as CHG=1) -- negative control
HasSub(t, key) == \E i \in 1..(Len(t) - Len(key) + 1) : SubSeq(t, i, i + Len(key) - 1) = key
EqPos(t) == Min({i \in 1..Len(t) : Chr(t, i) = "="} \cup {Len(t) + 1})
PropHits(toks, key) == IF SubstringKeys
                       THEN {i \in 9..Len(toks) : HasSub(toks[i], key) /\ IsInt(SubSeq(toks[i], EqPos(toks[i]) + 1, Len(toks[i])))}
                       ELSE {i \in 9..Len(toks) : StartsWith(toks[i], key \o "=") /\ IsInt(SubSeq(toks[i], Len(key) + 2, Len(toks[i])))}
Prop(toks, key) == LET hits == PropHits(toks, key) IN
                   IF hits = {} THEN 0 ELSE Int10(SubSeq(toks[Max(hits)], EqPos(toks[Max(hits)]) + 1, Len(toks[Max(hits)])))

DErr(w) == [ok |-> FALSE, why |-> w]
DecodeV3000(rawlines) ==
  \* the three header lines and the counts line are not block lines: continuation starts after them
  LET ls == IF Len(rawlines) <= 4 THEN rawlines ELSE SubSeq(rawlines, 1, 4) \o Splice(SubSeq(rawlines, 5, Len(rawlines))) IN
  IF Len(ls) < 7 \/ "!ERROR" \in {ls[i] : i \in 1..Len(ls)} THEN DErr("structure") ELSE
  LET T == TLCEval([i \in 1..Len(ls) |-> Tokens(ls[i])])
      cnt == T[6] IN
  IF Len(cnt) < 5 \/ cnt[3] # "COUNTS" \/ ~IsNat(cnt[4]) \/ ~IsNat(cnt[5]) THEN DErr("counts") ELSE
  LET na == Nat10(cnt[4])  nb == Nat10(cnt[5]) IN
  IF Len(ls) < 8 + na \/ SubSeq(T[7], 3, Len(T[7])) # <<"BEGIN", "ATOM">>
     \/ SubSeq(T[8 + na], 3, Len(T[8 + na])) # <<"END", "ATOM">> THEN DErr("atomblock") ELSE
  LET aline(k) == T[7 + k]                                     \* k in 1..na
      wellformed(k) == Len(aline(k)) >= 7 /\ IsDigits(aline(k)[3])
  IN IF \E k \in 1..na : ~wellformed(k) THEN DErr("atomline") ELSE
  LET isStar(k) == aline(k)[4] = "*"
      real == SetToSortSeq({k \in 1..na : ~isStar(k)}, <)
      idxOf(k) == NormIdx(aline(k)[3])
      starIdx == {idxOf(k) : k \in {k \in 1..na : isStar(k)}}
      realIdx == {idxOf(real[j]) : j \in 1..Len(real)}
      posOfIdx == TLCEval([ix \in realIdx |-> (CHOOSE j \in 1..Len(real) : idxOf(real[j]) = ix) - 1])
      atoms == TLCEval([j \in 1..Len(real) |-> LET t == aline(real[j]) IN
                 [sym |-> IF t[4] \in {"D", "T"} THEN "H" ELSE t[4], x |-> t[5], y |-> t[6], z |-> t[7],
                  chg |-> Prop(t, "CHG"), rad |-> Prop(t, "RAD"),
                  mass |-> IF t[4] = "D" THEN 2 ELSE IF t[4] = "T" THEN 3 ELSE Prop(t, "MASS")]])
  IN IF Cardinality(realIdx) # Len(real) THEN DErr("duplicate-index") ELSE
     IF nb = 0 THEN [ok |-> TRUE, atoms |-> atoms, bonds |-> {}] ELSE
  IF Len(ls) < 10 + na + nb \/ SubSeq(T[9 + na], 3, Len(T[9 + na])) # <<"BEGIN", "BOND">>
     \/ SubSeq(T[10 + na + nb], 3, Len(T[10 + na + nb])) # <<"END", "BOND">> THEN DErr("bondblock") ELSE
  LET bline(k) == T[9 + na + k]
  IN IF \E k \in 1..nb : Len(bline(k)) < 6 \/ ~IsNat(bline(k)[4]) \/ ~IsDigits(bline(k)[5]) \/ ~IsDigits(bline(k)[6]) THEN DErr("bondline") ELSE
  LET endpts(t) ==     \* the numbers inside ENDPTS=( ... ), or << >>
        LET s0 == {i \in 1..Len(t) : StartsWith(t[i], "ENDPTS=(")} IN
        IF s0 = {} THEN <<>> ELSE
        LET a == Min(s0)  e == Min({i \in a..Len(t) : EndsWith(t[i], ")")})
            piece(i) == IF i = a /\ i = e THEN SubSeq(t[i], 9, Len(t[i]) - 1)
                        ELSE IF i = a THEN SubSeq(t[i], 9, Len(t[i]))
                        ELSE IF i = e THEN SubSeq(t[i], 1, Len(t[i]) - 1) ELSE t[i]
            ps == SelectSeq([i \in 1..(e - a + 1) |-> piece(a + i - 1)], LAMBDA x : x # "")
        IN ps
      bondsOf(k) ==
        LET t == bline(k)  ty == Nat10(t[4])  a1 == NormIdx(t[5])  a2 == NormIdx(t[6]) IN
        IF a1 \in starIdx /\ a2 \in starIdx THEN {<<"!", "!", 0>>}
        ELSE IF a1 \in starIdx \/ a2 \in starIdx THEN
             LET other == IF a1 \in starIdx THEN a2 ELSE a1  ep == endpts(t) IN
             IF ep = <<>> THEN {}
             ELSE IF ~(\A i \in 1..Len(ep) : IsDigits(ep[i])) \/ ~IsNat(ep[1]) \/ Nat10(ep[1]) # Len(ep) - 1 THEN {<<"!", "!", 0>>}
             ELSE {<<other, NormIdx(ep[i]), ty>> : i \in 2..Len(ep)}
        ELSE {<<a1, a2, ty>>}
      rawb == UNION {bondsOf(k) : k \in 1..nb}
  IN IF <<"!", "!", 0>> \in rawb THEN DErr("star") ELSE
     IF \E b \in rawb : b[1] \notin realIdx \/ b[2] \notin realIdx THEN DErr("index") ELSE
     [ok |-> TRUE, atoms |-> atoms,
      bonds |-> {LET p == posOfIdx[b[1]]  q == posOfIdx[b[2]] IN
                 <<IF p < q THEN p ELSE q, IF p < q THEN q ELSE p, b[3]>> : b \in rawb}]

\* ------------------------------------------------------------------ rendering (spelling choices)
RECURSIVE JoinWith(_, _)
JoinWith(toks, sep) == IF toks = <<>> THEN "" ELSE IF Len(toks) = 1 THEN toks[1]
                       ELSE toks[1] \o sep[((Len(toks) - 2) % Len(sep)) + 1] \o JoinWith(Tail(toks), sep)
IntStr(v) == IF v < 0 THEN "-" \o ToString(0 - v) ELSE ToString(v)
\* the keywords of the format other than CHG / RAD / MASS, with an admissible value each
AtomExtras == <<"CFG=1", "VAL=2", "HCOUNT=1", "STBOX=1", "INVRET=1", "EXACHG=1", "SUBST=2", "UNSAT=1", "RBCNT=2",
                "ATTCHPT=1", "CLASS=AA", "SEQID=3", "RGROUPS=(1 2)", "ATTCHORD=(4 1 Al 2 Br)">>
BondExtras == <<"CFG=1", "TOPO=1", "RXCTR=4", "STBOX=1", "DISP=COORD">>
BlankRuns == << <<" ">>, <<"  ">>, <<" ", "   ">>, <<"   ", " ", "  ">> >>
PermsOf3 == << <<1, 2, 3>>, <<1, 3, 2>>, <<2, 1, 3>>, <<2, 3, 1>>, <<3, 1, 2>>, <<3, 2, 1>> >>

AtomProps(a, c, k) ==     \* the KEY=value tokens of atom a (k-th atom) in the chosen order
  LET dt == c.dt /\ a.sym = "H" /\ a.mass \in {2, 3}
      p1 == IF a.chg # 0 THEN <<"CHG=" \o IntStr(a.chg)>> ELSE IF c.defaults THEN <<"CHG=0">> ELSE <<>>
      p2 == IF a.rad # 0 THEN <<"RAD=" \o IntStr(a.rad)>> ELSE IF c.defaults THEN <<"RAD=0">> ELSE <<>>
      p3 == IF dt THEN <<>> ELSE IF a.mass # 0 THEN <<"MASS=" \o IntStr(a.mass)>> ELSE IF c.defaults THEN <<"MASS=0">> ELSE <<>>
      ps == << p1, p2, p3 >>
      o  == PermsOf3[c.porder]
      ex == IF c.aextra > 0 /\ c.aextra <= Len(AtomExtras) /\ k = c.exon THEN <<AtomExtras[c.aextra]>> ELSE <<>>
  IN IF c.exfirst THEN ex \o ps[o[1]] \o ps[o[2]] \o ps[o[3]] ELSE ps[o[1]] \o ps[o[2]] \o ps[o[3]] \o ex
AtomSym(a, c) == IF c.dt /\ a.sym = "H" /\ a.mass = 2 THEN "D" ELSE IF c.dt /\ a.sym = "H" /\ a.mass = 3 THEN "T" ELSE a.sym

\* M = [atoms: Seq([sym, chg, rad, mass, x, y, z]), bonds: set of <<p, q, type>> (0-based, p < q)]
\* c.idx[k] = the index written for the k-th atom; c.star = encode all bonds of atom c.starat (0-based) with a
\* star atom; c.cont = <<line number in the body, offset>> of a continuation split (<<0, 0>> = none)
BodyLines(M, c) ==
  LET n == Len(M.atoms)
      sep == BlankRuns[c.blanks]
      bseq == SetToSortSeq(M.bonds, LAMBDA e, f : e[1] < f[1] \/ (e[1] = f[1] /\ e[2] < f[2]))
      starBonds == IF c.star THEN {b \in M.bonds : b[1] = c.starat \/ b[2] = c.starat} ELSE {}
      \* star encoding needs all those bonds to have one type
      useStar == c.star /\ starBonds # {} /\ Cardinality({b[3] : b \in starBonds}) = 1
      plain == IF useStar THEN SelectSeq(bseq, LAMBDA b : b \notin starBonds) ELSE bseq
      order == IF c.bondrev THEN Reverse(plain) ELSE plain
      starIndex == c.idx[n] + 7
      atomLine(k) == LET a == M.atoms[k] IN
          V30 \o JoinWith(<<ToString(c.idx[k]), AtomSym(a, c), a.x, a.y, a.z, "0">> \o AtomProps(a, c, k), sep)
      starLine == V30 \o JoinWith(<<ToString(starIndex), "*", "0", "0", "0", "0">>, sep)
      bondLine(j) == LET b == order[j]
                         e1 == IF c.swap THEN b[2] ELSE b[1]  e2 == IF c.swap THEN b[1] ELSE b[2]
                         ex == IF c.bextra > 0 /\ c.bextra <= Len(BondExtras) /\ j = 1 THEN <<BondExtras[c.bextra]>> ELSE <<>>
                     IN V30 \o JoinWith(<<ToString(j), ToString(b[3]), ToString(c.idx[e1 + 1]), ToString(c.idx[e2 + 1])>> \o ex, sep)
      others == LET ob == SetToSortSeq({IF b[1] = c.starat THEN b[2] ELSE b[1] : b \in starBonds}, <) IN ob
      starBondLine == LET ty == (CHOOSE b \in starBonds : TRUE)[3]
                          eps == [i \in 1..Len(others) |-> ToString(c.idx[others[i] + 1])]
                      IN V30 \o JoinWith(<<ToString(Len(order) + 1), ToString(ty)>>
                                          \o (IF c.swap THEN <<ToString(c.idx[c.starat + 1]), ToString(starIndex)>>
                                                        ELSE <<ToString(starIndex), ToString(c.idx[c.starat + 1])>>)
                                          \o <<"ENDPTS=(" \o ToString(Len(others))>> \o SubSeq(eps, 1, Len(eps) - 1)
                                          \o <<eps[Len(eps)] \o ")", "ATTACH=ALL">>, <<" ">>)
      nAtomLines == n + (IF useStar THEN 1 ELSE 0)
      nBondLines == Len(order) + (IF useStar THEN 1 ELSE 0)
      atomBlock == [k \in 1..n |-> atomLine(k)] \o (IF useStar THEN <<starLine>> ELSE <<>>)
      bondBlock == IF nBondLines = 0 THEN <<>>
                   ELSE <<V30 \o "BEGIN BOND">> \o [j \in 1..Len(order) |-> bondLine(j)]
                        \o (IF useStar THEN <<starBondLine>> ELSE <<>>) \o <<V30 \o "END BOND">>
      trailing == IF c.trail THEN <<V30 \o "BEGIN SGROUP", V30 \o "1 DAT 0 ATOMS=(1 " \o ToString(c.idx[1]) \o ") FIELDNAME=CHG FIELDDATA=MASS=7",
                                    V30 \o "END SGROUP", V30 \o "BEGIN COLLECTION", V30 \o "MDLV30/STEABS ATOMS=(1 " \o ToString(c.idx[1]) \o ")",
                                    V30 \o "END COLLECTION">> ELSE <<>>
  IN <<V30 \o "BEGIN CTAB", V30 \o JoinWith(<<"COUNTS", ToString(nAtomLines), ToString(nBondLines), "0", "0", "0">>, sep),
       V30 \o "BEGIN ATOM">> \o atomBlock \o <<V30 \o "END ATOM">> \o bondBlock \o trailing \o <<V30 \o "END CTAB">>

\* a continuation split of body line i after `off` characters of its content (off >= 1, < length of the content)
SplitLine(line, off) == <<SubSeq(line, 1, 7 + off) \o "-", V30 \o SubSeq(line, 8 + off, Len(line))>>
Header(c) == <<IF c.trail THEN "a name - with a dash-" ELSE "", "  SPEC      0101000000", "M  V30 looks like a block line but is the comment", "  0  0  0     0  0            999 V3000">>
RenderV3000(M, c) ==
  LET body == BodyLines(M, c)
      i == c.cont[1]  off == c.cont[2]
      splitOK == i >= 1 /\ i <= Len(body) /\ off >= 1 /\ 7 + off < Len(body[i])
      \* the format does not allow blanks after a continuation dash; a split that would leave the first part ending in a
      \* dash followed by the added dash is fine ("--": only the last dash is the continuation mark)
      body2 == IF splitOK THEN SubSeq(body, 1, i - 1) \o SplitLine(body[i], off) \o SubSeq(body, i + 1, Len(body)) ELSE body
      j == c.cont2
      split2OK == splitOK /\ j >= 1 /\ 7 + j < Len(body2[i + 1])
      body3 == IF split2OK THEN SubSeq(body2, 1, i) \o SplitLine(body2[i + 1], j) \o SubSeq(body2, i + 2, Len(body2)) ELSE body2
  IN Header(c) \o body3 \o <<"M  END">> \o (IF c.trail THEN <<"> <DATA>", "M  V30 1 C 0 0 0 0 MASS=9", "", "$$$$">> ELSE <<>>)

DefaultChoice(n) == [idx |-> [k \in 1..n |-> k], blanks |-> 1, porder |-> 1, aextra |-> 0, exon |-> 1, exfirst |-> FALSE,
                     bextra |-> 0, defaults |-> FALSE, dt |-> FALSE, star |-> FALSE, starat |-> 0, bondrev |-> FALSE,
                     swap |-> FALSE, trail |-> FALSE, cont |-> <<0, 0>>, cont2 |-> 0]
SameMolecule(D, M) == D.ok /\ D.atoms = M.atoms /\ D.bonds = M.bonds
====
