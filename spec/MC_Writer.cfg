SPECIFICATION WSpec
CONSTANTS CutAt = 71 FitLen = 72 MaxLen = 300
  ProbeChars = {" ", "-", "=", "5"}
  ProbePositions = {1, 69, 70, 71, 72, 73, 74, 140, 141, 142, 143, 144, 145, 211, 212, 213, 214, 215, 216}
INVARIANT WriterOK
CHECK_DEADLOCK FALSE
