---- MODULE Bliss ----
(* The environment: igraph's canonical_permutation (bliss), by contract.

   For a graph whose vertices carry colours (the partition classes) it returns a labelling such that
   colour-isomorphic inputs are relabelled to the SAME labelled graph.  The contract does not say which of
   several symmetric atoms gets which number: every labelling that reaches the canonical form is a legal answer,
   so models choose among CanonLabellings nondeterministically.  (Brute force over all permutations: small n.) *)
EXTENDS MolGraph, Refine
\* canonical form = the relabelling with the smallest code; code = classes by new label, then the
\* adjacency matrix row by row.  Every labelling that reaches the smallest code is a legal answer.
Code(G) == [i \in 1..(G.n + G.n * G.n) |->
              IF i <= G.n THEN G.part[i]
              ELSE LET k == i - G.n - 1  a == (k \div G.n) + 1  b == (k % G.n) + 1 IN IF b \in G.adj[a] THEN 0 ELSE 1]
CanonLabellings(G) ==
  LET codes == TLCEval([f \in Perms(G.n) |-> Code(Apply(G, f))])
      best  == CHOOSE f \in Perms(G.n) : \A h \in Perms(G.n) : ~SeqLess(codes[h], codes[f])
  IN {f \in Perms(G.n) : codes[f] = codes[best]}

SpecCanonicalize(G, f) == Apply([G EXCEPT !.part = FinalPartition(G)], f)
WithPart(G) == [G EXCEPT !.part = FinalPartition(G)]

\* canonicalize_molecule as the specification computes it, for one legal answer of bliss
SpecCanon(G) == LET P == WithPart(G) IN Apply(P, CHOOSE f \in CanonLabellings(P) : TRUE)
====
