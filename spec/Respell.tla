---- MODULE Respell ----
(* Sentences of the TUCAN grammar as structures, the ways to spell one molecule differently (C11), and the
   single-token edits around a sentence (C10).

   A structured sentence  S = [F, U, A]
     F  Seq of <<symbol, count>>   the sum formula in textual order
     U  Seq of <<a, b>>            bond tuples in textual order
     A  Seq of <<index, Seq of <<key, value>>>>   attribute blocks in textual order
   Spell(S) is its text.  The respelling operators keep the denoted molecule (up to the index map they return):
     SwapEnds, MoveTuple, DupTuple, SwapBlocks, SplitBlock, SwapProps, Renumber (two atoms of one element block) *)
EXTENDS Integers, Sequences, FiniteSets, TLC, SequencesExt, FiniteSetsExt, Functions, Grammar

RECURSIVE CatR(_)
CatR(ss) == IF ss = <<>> THEN "" ELSE ss[1] \o CatR(Tail(ss))
SpellF(F) == CatR([i \in 1..Len(F) |-> F[i][1] \o (IF F[i][2] > 1 THEN ToString(F[i][2]) ELSE "")])
SpellU(U) == CatR([i \in 1..Len(U) |-> "(" \o ToString(U[i][1]) \o "-" \o ToString(U[i][2]) \o ")"])
SpellProps(P) == CatR([j \in 1..Len(P) |-> (IF j > 1 THEN "," ELSE "") \o P[j][1] \o "=" \o ToString(P[j][2])])
SpellA(A) == CatR([i \in 1..Len(A) |-> "(" \o ToString(A[i][1]) \o ":" \o SpellProps(A[i][2]) \o ")"])
Spell(S) == SpellF(S.F) \o "/" \o SpellU(S.U) \o (IF S.A = <<>> THEN "" ELSE "/" \o SpellA(S.A))

NAtoms(S) == FoldLeft(LAMBDA acc, x : acc + x[2], 0, S.F)
IdMap(n) == [i \in 1..n |-> i]
\* element block of atom index i: atoms are numbered by increasing atomic number, so blocks follow ItemsByZ
BlockOf(S, i) ==
  LET it == SortSeq([k \in 1..Len(S.F) |-> <<ZOf[S.F[k][1]], S.F[k][2]>>], LAMBDA x, y : x[1] < y[1])
      RECURSIVE Find(_, _)
      Find(k, start) == IF i < start + it[k][2] THEN k ELSE Find(k + 1, start + it[k][2])
  IN Find(1, 1)

\* --- meaning-preserving respellings: each returns [s |-> new sentence, m |-> index map old -> new]
SwapEnds(S, i) == [s |-> [S EXCEPT !.U[i] = <<S.U[i][2], S.U[i][1]>>], m |-> IdMap(NAtoms(S))]
MoveTuple(S, i, j) == LET t == S.U[i]  rest == SubSeq(S.U, 1, i - 1) \o SubSeq(S.U, i + 1, Len(S.U))
                      IN [s |-> [S EXCEPT !.U = SubSeq(rest, 1, j - 1) \o <<t>> \o SubSeq(rest, j, Len(rest))], m |-> IdMap(NAtoms(S))]
DupTuple(S, i, j) == [s |-> [S EXCEPT !.U = SubSeq(S.U, 1, j) \o <<S.U[i]>> \o SubSeq(S.U, j + 1, Len(S.U))], m |-> IdMap(NAtoms(S))]
SwapBlocks(S, i, j) == [s |-> [S EXCEPT !.A = [S.A EXCEPT ![i] = S.A[j], ![j] = S.A[i]]], m |-> IdMap(NAtoms(S))]
SplitBlock(S, i) ==     \* (k:mass=..,rad=..)  ->  (k:mass=..) ... (k:rad=..)   the second part goes to the end
  [s |-> [S EXCEPT !.A = SubSeq(S.A, 1, i - 1) \o << <<S.A[i][1], <<S.A[i][2][1]>> >> >> \o SubSeq(S.A, i + 1, Len(S.A))
                         \o << <<S.A[i][1], Tail(S.A[i][2])>> >>], m |-> IdMap(NAtoms(S))]
SwapProps(S, i) == [s |-> [S EXCEPT !.A[i] = <<S.A[i][1], Reverse(S.A[i][2])>>], m |-> IdMap(NAtoms(S))]
Renumber(S, p, q) ==    \* atoms p and q (same element block) trade their numbers, everywhere
  LET f == [i \in 1..NAtoms(S) |-> IF i = p THEN q ELSE IF i = q THEN p ELSE i] IN
  [s |-> [S EXCEPT !.U = [k \in 1..Len(S.U) |-> <<f[S.U[k][1]], f[S.U[k][2]]>>],
                   !.A = [k \in 1..Len(S.A) |-> <<f[S.A[k][1]], S.A[k][2]>>]], m |-> f]

Respellings(S) ==
  LET n == NAtoms(S) IN
  {SwapEnds(S, i) : i \in 1..Len(S.U)}
  \cup {MoveTuple(S, i, j) : i \in 1..Len(S.U), j \in 1..Len(S.U)}
  \cup {DupTuple(S, i, j) : i \in 1..Len(S.U), j \in {0, Len(S.U)}}
  \cup {SwapBlocks(S, i, j) : i \in 1..Len(S.A), j \in 1..Len(S.A)}
  \cup {SplitBlock(S, i) : i \in {k \in 1..Len(S.A) : Len(S.A[k][2]) = 2}}
  \cup {SwapProps(S, i) : i \in {k \in 1..Len(S.A) : Len(S.A[k][2]) = 2}}
  \cup {Renumber(S, pq[1], pq[2]) : pq \in {t \in (1..n) \X (1..n) : t[2] > t[1] /\ BlockOf(S, t[2]) = BlockOf(S, t[1])}}

\* --- C10: the single-token neighbourhood of a token sequence over an alphabet
Inserts(T, Al) == {SubSeq(T, 1, i) \o <<a>> \o SubSeq(T, i + 1, Len(T)) : i \in 0..Len(T), a \in Al}
Deletes(T) == {SubSeq(T, 1, i - 1) \o SubSeq(T, i + 1, Len(T)) : i \in 1..Len(T)}
Replaces(T, Al) == {[T EXCEPT ![i] = a] : i \in 1..Len(T), a \in Al}
Transposes(T) == {[T EXCEPT ![i] = T[i + 1], ![i + 1] = T[i]] : i \in 1..(Len(T) - 1)}
Edits1(T, Al) == Inserts(T, Al) \cup Deletes(T) \cup Replaces(T, Al) \cup Transposes(T)
PunctTokens == {"/", "(", ")", "-", ":", ",", "="}
NumberTokens == {"0", "1", "2", "3", "9", "10", "11", "99", "01", "100"}
KeyTokens == {"mass", "rad"}
SmallAlphabet == PunctTokens \cup {"1", "2", "10", "0"} \cup KeyTokens \cup {"C", "H", "Cl", "O", "He", "X", "c", " "}
FullAlphabet == PunctTokens \cup NumberTokens \cup KeyTokens \cup SymSet \cup {"X", "c", " ", "Mass", "D"}
====
