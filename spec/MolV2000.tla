---- MODULE MolV2000 ----
(* The V2000 connection table, from the CTfile format rules: fixed columns.

     line 4   counts line  aaabbblll...  (aaa atoms, bbb bonds, lll atom-list lines) ... V2000
     atom     xxxxx.xxxxyyyyy.yyyyzzzzz.zzzz aaaddcccsss...   x 1-10, y 11-20, z 21-30, symbol 32-34, charge code 37-39
              charge code: 0 none, 1 +3, 2 +2, 3 +1, 4 doublet radical, 5 -1, 6 -2, 7 -3
     bond     111222ttt...   atoms 1-3, 4-6, type 7-9
     then lll atom-list lines, then the property block up to "M  END":
       M  CHGnn8 aaa vvv ...   M  RADnn8 aaa vvv ...   M  ISOnn8 aaa vvv ...   (nn8 entries of 8 columns from column 10)
       If any M  CHG or M  RAD line is present, ALL charge codes of the atom block are superseded.
       M  ISO gives the absolute mass of the listed atoms.  A value 0 is "no charge / no radical".
       Other property lines (M  STY, A  , V  , G  ...) do not contribute.
     D / T = hydrogen of mass 2 / 3, whatever property lines the file contains.
   Result as in MolV3000: [ok, atoms, bonds].                                               *)
EXTENDS MolV3000
ClearDTOnISO == FALSE         \* TRUE = the pinned tree: any M  ISO line erases the masses of D / T atoms (negative control, overridden with <-)

Col(s, a, b) == IF Len(s) < a THEN "" ELSE SubSeq(s, a, IF Len(s) < b THEN Len(s) ELSE b)
RECURSIVE StripL(_)
StripL(s) == IF Len(s) > 0 /\ Chr(s, 1) = " " THEN StripL(SubSeq(s, 2, Len(s))) ELSE s
RECURSIVE StripR(_)
StripR(s) == IF Len(s) > 0 /\ Chr(s, Len(s)) = " " THEN StripR(SubSeq(s, 1, Len(s) - 1)) ELSE s
Strip(s) == StripL(StripR(s))
FieldInt(s) == LET t == Strip(s) IN IF t = "" THEN 0 ELSE Int10(t)
FieldIsInt(s) == LET t == Strip(s) IN t = "" \/ IsInt(t)
ChargeOfCode(c) == CASE c = 1 -> 3 [] c = 2 -> 2 [] c = 3 -> 1 [] c = 5 -> -1 [] c = 6 -> -2 [] c = 7 -> -3 [] OTHER -> 0
RadOfCode(c) == IF c = 4 THEN 2 ELSE 0

\* entries <<atom number, value>> of one property line
Entries(line) == LET k == FieldInt(Col(line, 7, 9)) IN
  [i \in 1..k |-> <<FieldInt(Col(line, 11 + 8 * (i - 1), 13 + 8 * (i - 1))), FieldInt(Col(line, 15 + 8 * (i - 1), 17 + 8 * (i - 1)))>>]
RECURSIVE AllEntries(_, _)
AllEntries(lines, tag) ==     \* entries of all property lines of one kind, in file order
  IF lines = <<>> THEN <<>>
  ELSE (IF StartsWith(lines[1], tag) THEN Entries(lines[1]) ELSE <<>>) \o AllEntries(Tail(lines), tag)
\* the last entry for atom a wins; 0 = none
LastFor(es, a) == LET hits == {i \in 1..Len(es) : es[i][1] = a} IN IF hits = {} THEN 0 ELSE es[Max(hits)][2]
HasFor(es, a) == \E i \in 1..Len(es) : es[i][1] = a

DecodeV2000(lines) ==
  IF Len(lines) < 5 THEN DErr("structure") ELSE
  LET cl == lines[4] IN
  IF ~FieldIsInt(Col(cl, 1, 3)) \/ ~FieldIsInt(Col(cl, 4, 6)) \/ ~FieldIsInt(Col(cl, 7, 9)) THEN DErr("counts") ELSE
  LET na == FieldInt(Col(cl, 1, 3))  nb == FieldInt(Col(cl, 4, 6))  nl == FieldInt(Col(cl, 7, 9)) IN
  IF Len(lines) < 4 + na + nb + nl + 1 THEN DErr("structure") ELSE
  LET aline(k) == lines[4 + k]
      bline(k) == lines[4 + na + k]
      rest == SubSeq(lines, 4 + na + nb + nl + 1, Len(lines))
      endAt == {i \in 1..Len(rest) : rest[i] = "M  END"}
  IN IF endAt = {} THEN DErr("no-end") ELSE
  LET props == SubSeq(rest, 1, Min(endAt) - 1)
      chgE == AllEntries(props, "M  CHG")  radE == AllEntries(props, "M  RAD")  isoE == AllEntries(props, "M  ISO")
      superseded == chgE # <<>> \/ radE # <<>> \/ \E i \in 1..Len(props) : StartsWith(props[i], "M  CHG") \/ StartsWith(props[i], "M  RAD")
      symOf(k) == Strip(Col(aline(k), 32, 34))
      code(k) == FieldInt(Col(aline(k), 37, 39))
      atoms == TLCEval([k \in 1..na |->
                 [sym |-> IF symOf(k) \in {"D", "T"} THEN "H" ELSE symOf(k),
                  x |-> Strip(Col(aline(k), 1, 10)), y |-> Strip(Col(aline(k), 11, 20)), z |-> Strip(Col(aline(k), 21, 30)),
                  chg |-> IF superseded THEN LastFor(chgE, k) ELSE ChargeOfCode(code(k)),
                  rad |-> IF superseded THEN LastFor(radE, k) ELSE RadOfCode(code(k)),
                  mass |-> IF HasFor(isoE, k) /\ LastFor(isoE, k) # 0 THEN LastFor(isoE, k)
                           ELSE IF ClearDTOnISO /\ \E i \in 1..Len(props) : StartsWith(props[i], "M  ISO") THEN 0
                           ELSE IF symOf(k) = "D" THEN 2 ELSE IF symOf(k) = "T" THEN 3 ELSE 0]])
      allE == chgE \o radE \o isoE
  IN IF \E i \in 1..Len(allE) : allE[i][1] < 1 \/ allE[i][1] > na THEN DErr("index") ELSE
     LET rawb == {<<FieldInt(Col(bline(k), 1, 3)), FieldInt(Col(bline(k), 4, 6)), FieldInt(Col(bline(k), 7, 9))>> : k \in 1..nb} IN
     IF \E b \in rawb : b[1] < 1 \/ b[1] > na \/ b[2] < 1 \/ b[2] > na THEN DErr("index") ELSE
     [ok |-> TRUE, atoms |-> atoms,
      bonds |-> {<<(IF b[1] < b[2] THEN b[1] ELSE b[2]) - 1, (IF b[1] < b[2] THEN b[2] ELSE b[1]) - 1, b[3]>> : b \in rawb}]

\* ------------------------------------------------------------------ rendering
RECURSIVE Spaces(_)
Spaces(k) == IF k <= 0 THEN "" ELSE " " \o Spaces(k - 1)
PadL(s, w) == Spaces(w - Len(s)) \o s
PadR(s, w) == s \o Spaces(w - Len(s))
I3(v) == PadL(IntStr(v), 3)
CodeOf(a) == IF a.rad = 0 THEN (CASE a.chg = 3 -> 1 [] a.chg = 2 -> 2 [] a.chg = 1 -> 3 [] a.chg = -1 -> 5 [] a.chg = -2 -> 6 [] a.chg = -3 -> 7 [] OTHER -> 0)
             ELSE IF a.rad = 2 /\ a.chg = 0 THEN 4 ELSE 0
BlockExpressible(a) == (a.chg = 0 /\ a.rad = 0) \/ CodeOf(a) # 0
RECURSIVE Chunks(_, _)
Chunks(es, g) == IF es = <<>> THEN <<>> ELSE
                 LET k == IF Len(es) < g THEN Len(es) ELSE g IN <<SubSeq(es, 1, k)>> \o Chunks(SubSeq(es, k + 1, Len(es)), g)
PropLines(tag, es, g) == LET ch == Chunks(es, g) IN
  [i \in 1..Len(ch) |-> tag \o I3(Len(ch[i])) \o CatS([j \in 1..Len(ch[i]) |-> " " \o I3(ch[i][j][1]) \o " " \o I3(ch[i][j][2])])]
\* c.mode "block" (charge codes only; requires every atom block-expressible), "lines", "both" (codes and lines),
\* "stale" (lines for the true values plus arbitrary stale codes in the atom block, which the lines supersede)
\* c.group entries per line (1..8); c.zeros explicit zero-valued entries for unaffected atoms; c.dt use D / T symbols;
\* c.isodt additionally give D / T atoms an explicit M  ISO entry; c.extra unrelated property lines; c.lists atom-list
\* lines after the bond block; c.trail a second SD record with property lines after M  END
RenderV2000(M, c) ==
  LET n == Len(M.atoms)
      useDT(a) == c.dt /\ a.sym = "H" /\ a.mass \in {2, 3}
      symW(a) == IF useDT(a) THEN (IF a.mass = 2 THEN "D" ELSE "T") ELSE a.sym
      codeW(k) == LET a == M.atoms[k] IN
                  IF c.mode \in {"block", "both"} THEN CodeOf(a)
                  ELSE IF c.mode = "stale" THEN c.stale[((k - 1) % Len(c.stale)) + 1] ELSE 0
      atomLine(k) == LET a == M.atoms[k] IN
          PadL(a.x, 10) \o PadL(a.y, 10) \o PadL(a.z, 10) \o " " \o PadR(symW(a), 3) \o " 0" \o I3(codeW(k)) \o "  0  0  0  0  0  0  0  0  0  0"
      bseq == SetToSortSeq(M.bonds, LAMBDA e, f : e[1] < f[1] \/ (e[1] = f[1] /\ e[2] < f[2]))
      bondLine(j) == LET b == bseq[j] IN (IF c.swap THEN I3(b[2] + 1) \o I3(b[1] + 1) ELSE I3(b[1] + 1) \o I3(b[2] + 1)) \o I3(b[3]) \o "  0  0  0  0"
      withLines == c.mode \in {"lines", "both", "stale"}
      chgEs == SelectSeq([k \in 1..n |-> <<k, M.atoms[k].chg>>], LAMBDA e : e[2] # 0 \/ c.zeros)
      radEs == SelectSeq([k \in 1..n |-> <<k, M.atoms[k].rad>>], LAMBDA e : e[2] # 0 \/ c.zeros)
      isoEs == SelectSeq([k \in 1..n |-> <<k, M.atoms[k].mass>>], LAMBDA e : e[2] # 0 /\ (~useDT(M.atoms[e[1]]) \/ c.isodt))
      needMarker == c.mode = "stale" /\ chgEs = <<>> /\ radEs = <<>>     \* something must supersede the stale codes
      chgL == IF withLines THEN PropLines("M  CHG", IF c.revent THEN Reverse(chgEs) ELSE chgEs, c.group) ELSE <<>>
      radL == IF withLines THEN PropLines("M  RAD", radEs, c.group) ELSE <<>>
      marker == IF needMarker THEN <<"M  CHG  1" \o " " \o I3(1) \o " " \o I3(0)>> ELSE <<>>
      isoL == PropLines("M  ISO", isoEs, c.group)
      extra == IF c.extra THEN <<"M  STY  1   1 SUP", "M  SAL   1  1   1", "M  SMT   1 Me", "A    1", "an alias",
                                 "V    1 a value", "G    1  1", "Et", "M  ALS   1  2 F C   N   ", "M  RGP  1   1   1">> ELSE <<>>
      lists == IF c.lists THEN <<"  1 F    2   6   7", "  1 T    1   8">> ELSE <<>>
      props == IF c.isofirst THEN isoL \o extra \o chgL \o marker \o radL ELSE chgL \o marker \o extra \o radL \o isoL
      trailing == IF c.trail THEN <<"> <NOTE>", "M  CHG  1   1   1", "M  RAD  1   1   2", "M  ISO  1   1  15", "", "$$$$", "second", "", "",
                                    "  1  0  0  0  0  0  0  0  0  0999 V2000", "    0.0000    0.0000    0.0000 C   0  4  0  0  0  0  0  0  0  0  0  0",
                                    "M  RAD  1   1   2", "M  END", "$$$$">> ELSE <<>>
  IN <<"", "  SPEC      0101000000", "">>
     \o <<I3(n) \o I3(Len(bseq)) \o I3(Len(lists)) \o "  0  0  0  0  0  0  0999 V2000">>
     \o [k \in 1..n |-> atomLine(k)] \o [j \in 1..Len(bseq) |-> bondLine(j)] \o lists \o props \o <<"M  END">> \o trailing

DefaultChoice2 == [mode |-> "lines", group |-> 8, zeros |-> FALSE, dt |-> FALSE, isodt |-> FALSE, extra |-> FALSE, lists |-> FALSE,
                   trail |-> FALSE, swap |-> FALSE, revent |-> FALSE, isofirst |-> FALSE, stale |-> <<0>>]
====
