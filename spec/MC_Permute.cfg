SPECIFICATION PSpec
CONSTANTS N = 4
INVARIANT Faithful
INVARIANT Enforced
INVARIANT CanChange
CHECK_DEADLOCK FALSE
