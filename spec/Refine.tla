---- MODULE Refine ----
(* Partition refinement (canonicalization.py: partition_molecule_by_attribute, refine_partitions).

   class(a) = rank of  <<value(a)>> \o (values of a's neighbours, sorted descending)
   among the sorted distinct such sequences; Python tuple order: lexicographic, a proper prefix
   is smaller.  First round: value = invariant code (z, mass, rad); later rounds: value = class.
   The loop stops when the largest class number no longer grows.                            *)
EXTENDS MolGraph

RECURSIVE Flat(_)
Flat(ss) == IF ss = <<>> THEN <<>> ELSE ss[1] \o Flat(Tail(ss))

\* val[a] is a fixed-length sequence of integers, so comparing flattened sequences is the same
\* as comparing Python's tuples of tuples.
NbrVals(G, val, a) == LET ns == SetToSeq(G.adj[a]) IN [i \in 1..Len(ns) |-> val[ns[i]]]
AttrSeq(G, val, a) == Flat(<<val[a]>> \o SortSeq(NbrVals(G, val, a), LAMBDA x, y : SeqLess(y, x)))

PartitionBy(G, val) ==
  LET seqs == TLCEval([a \in Atoms(G) |-> AttrSeq(G, val, a)])
      U    == {seqs[a] : a \in Atoms(G)}
  IN  TLCEval([a \in Atoms(G) |-> Cardinality({s \in U : SeqLess(s, seqs[a])})])

ColourVal(G) == [a \in Atoms(G) |-> Colour(G, a)]
ClassVal(G, part) == [a \in Atoms(G) |-> <<part[a]>>]
InitialPartition(G) == PartitionBy(G, ColourVal(G))
RefineOnce(G, part) == PartitionBy(G, ClassVal(G, part))
MaxOf(part) == Max({part[a] : a \in DOMAIN part})
NumClasses(part) == Cardinality({part[a] : a \in DOMAIN part})

RECURSIVE RefineLoop(_, _, _)
\* returns <<final partition, number of calls of partition_molecule_by_attribute in the loop>>
RefineLoop(G, part, k) ==
  LET p2 == RefineOnce(G, part) IN
  IF MaxOf(p2) = MaxOf(part) THEN <<p2, k + 1>> ELSE RefineLoop(G, p2, k + 1)
FinalPartition(G) == RefineLoop(G, InitialPartition(G), 0)[1]
Rounds(G) == RefineLoop(G, InitialPartition(G), 0)[2]

RECURSIVE RefineTraceFrom(_, _)
\* every partition the code computes, in order: the initial one and one per loop iteration
RefineTraceFrom(G, part) ==
  LET p2 == RefineOnce(G, part) IN
  IF MaxOf(p2) = MaxOf(part) THEN <<p2>> ELSE <<p2>> \o RefineTraceFrom(G, p2)
RefineTrace(G) == LET p0 == InitialPartition(G) IN <<p0>> \o RefineTraceFrom(G, p0)

\* ---- what C13 demands of a partition ----
ClassesDense(part) == {part[a] : a \in DOMAIN part} = 0..MaxOf(part)
\* atoms sorted by class: a statement about all pairs inside a class is checked on neighbours in this order
ByClass(G, part) == SetToSortSeq(Atoms(G), LAMBDA x, y : part[x] < part[y] \/ (part[x] = part[y] /\ x < y))
ColourHomogeneous(G, part) ==
  LET s == ByClass(G, part) IN \A i \in 1..(G.n - 1) : part[s[i]] = part[s[i + 1]] => Colour(G, s[i]) = Colour(G, s[i + 1])
NbrClasses(G, part, a) == SortSeq(NbrVals(G, ClassVal(G, part), a), LAMBDA x, y : SeqLess(y, x))
Equitable(G, part) ==
  LET s == ByClass(G, part) IN
  \A i \in 1..(G.n - 1) : part[s[i]] = part[s[i + 1]] => NbrClasses(G, part, s[i]) = NbrClasses(G, part, s[i + 1])
Stable(G, part) == NumClasses(RefineOnce(G, part)) = NumClasses(part)
OrbitRespecting(G, part) ==                 \* brute force, small n only
  \A f \in Aut(G) : \A a \in Atoms(G) : part[f[a]] = part[a]
\* p2 refines p1 and keeps the order of the classes
Refines(p2, p1) == \A a, b \in DOMAIN p1 : (p1[a] < p1[b] => p2[a] < p2[b]) /\ (p2[a] = p2[b] => p1[a] = p1[b])
====
