#!/usr/bin/env python3
"""setup_cmd: syntax-check every specification module with SANY, then run the binding self-test (nothing is built ahead of time)."""
import os, sys
sys.path.insert(0, os.path.dirname(os.path.abspath(__file__)))
import tlc
bad = 0
for f in sorted(os.listdir(tlc.SPEC_DIR)):
    if f.endswith(".tla"):
        ok, out = tlc.sany(f[:-4])
        print(("ok   " if ok else "FAIL ") + f)
        if not ok:
            bad += 1
            print(out[-1500:])
if bad:
    sys.exit(1)
# binding self-test on a committed fixture (does not touch /repo): corrupted logs must be rejected with the right clause
import selftest
sys.exit(selftest.main())
