#!/usr/bin/env python3
"""Binding self-test (no library involved): a session recorded from the unchanged library (fixtures/) is accepted by the
specification without any clause; the same session with one recorded field corrupted is reported with the clause that names
the damage; with one event removed it is no longer explainable.  A trace specification that accepted these would constrain
nothing."""
import copy, json, os, sys
HERE = os.path.dirname(os.path.abspath(__file__))
sys.path.insert(0, HERE)
import tlc
CFG = "SPECIFICATION TSpec\nCONSTANTS RLimit = 30 BFLimit = 6\nCONSTRAINT Report\nCHECK_DEADLOCK FALSE\n"


def verdicts(cases):
    res = tlc.run_sharded("Trace_Tucan", CFG, cases, shards=min(8, len(cases)))
    out = {}
    for r in res:
        if r.rc != 0:
            raise tlc.MachineryError(r.error_text(1500))
        for p in r.printed:
            if isinstance(p, dict) and "id" in p:
                out[p["id"]] = set(p["viol"])
    return out


def main():
    base = json.load(open(os.path.join(HERE, "fixtures", "session_CH2D-OH.json")))
    def variant(name, fn):
        c = copy.deepcopy(base); c["id"] = name; fn(c["ev"]); return c
    def first(ev, op, nth=0):
        return [e for e in ev if e["op"] == op][nth]
    def corrupt_string(ev):
        e = first(ev, "ser"); e["ret"] = e["ret"].replace("(1-5)", "(1-6)", 1)
    def swap_partition(ev):
        a = first(ev, "canon")["g"]["atoms"]; a[0]["p"], a[-1]["p"] = a[-1]["p"], a[0]["p"]
    def drop_bond(ev):
        g = first(ev, "canon")["g"]; a, b, *_ = g["edges"].pop(0); g["adj"][a].remove(b); g["adj"][b].remove(a)
    def lose_attribute(ev):
        first(ev, "canon")["g"]["atoms"][2]["attr"] += ";lost=1"
    def mutate_argument(ev):
        first(ev, "canon")["after"]["atoms"][0]["attr"] += ";x=1"
    def second_string(ev):
        e = first(ev, "ser", 1); e["ret"] = e["ret"].replace("mass=2", "mass=3")
    def drop_event(ev):
        ev.remove(first(ev, "canon"))
    cases = [base, variant("corrupt-string", corrupt_string), variant("swap-partition", swap_partition), variant("drop-bond", drop_bond),
             variant("lose-attribute", lose_attribute), variant("mutate-argument", mutate_argument), variant("second-string", second_string)]
    v = verdicts(cases)
    expect = {base["id"]: None, "corrupt-string": "C03:", "swap-partition": "C13:", "drop-bond": "C12:", "lose-attribute": "C12:atom-attributes-changed",
              "mutate-argument": "C12:canonicalize-mutated-its-argument", "second-string": "C01:"}
    bad = 0
    for k, want in expect.items():
        got = v.get(k)
        ok = got is not None and ((want is None and not [c for c in got if not c.startswith("R:")]) or (want is not None and any(c.startswith(want) for c in got)))
        print(("ok   " if ok else "FAIL ") + f"{k}: expected {want or 'no clause'}, got {sorted(got) if got is not None else 'not explained'}")
        bad += 0 if ok else 1
    # one event removed: the later events refer to an object that was never returned -> the session cannot be explained to its end
    v2 = verdicts([variant("drop-event", drop_event)])
    ok = "drop-event" not in v2
    print(("ok   " if ok else "FAIL ") + "drop-event: expected 'not explained', got " + ("not explained" if ok else str(sorted(v2["drop-event"]))))
    # ---- the text formats: a session with V3000 / V2000 reads, a written file and its read-back
    tbase = json.load(open(os.path.join(HERE, "fixtures", "session_text.json")))
    def tvariant(name, fn):
        c = copy.deepcopy(tbase); c["id"] = name; fn(c["ev"]); return c
    def wrong_charge(ev):
        first(ev, "read")["g"]["atoms"][0]["c"] = 1
    def lost_dt_mass(ev):
        e = first(ev, "read", 1); e["g"]["atoms"][1]["m"] = 0; e["g"]["atoms"][1]["hm"] = False
    def long_line(ev):
        e = first(ev, "write"); i = max(range(len(e["lines"])), key=lambda k: len(e["lines"][k])); e["lines"][i] += " " * 12
    def moved_digit(ev):
        e = first(ev, "write")
        for i, l in enumerate(e["lines"]):
            if l.endswith("-") and l.startswith("M  V30 ") and i + 1 < len(e["lines"]):
                e["lines"][i] = l[:-2] + "-"            # the character before the continuation dash is dropped
                break
    tcases = [tbase, tvariant("wrong-charge", wrong_charge), tvariant("lost-dt-mass", lost_dt_mass), tvariant("long-line", long_line), tvariant("moved-digit", moved_digit)]
    tv = verdicts(tcases)
    texpect = {tbase["id"]: None, "wrong-charge": "C07:charge", "lost-dt-mass": "C08:isotope-mass", "long-line": "C09:line-longer-than-80-characters", "moved-digit": "C09:"}
    for k, want in texpect.items():
        got = tv.get(k)
        okk = got is not None and ((want is None and not [c for c in got if not c.startswith("R:")]) or (want is not None and any(c.startswith(want) for c in got)))
        print(("ok   " if okk else "FAIL ") + f"{k}: expected {want or 'no clause'}, got {sorted(got) if got is not None else 'not explained'}")
        bad += 0 if okk else 1
    # ---- the constructor, label sets, the permutation helper: a session with graph_from_molecule, a graph whose labels are
    # not 0..n-1, two permute_molecule calls and a serialization of a non-canonical graph
    bbase = json.load(open(os.path.join(HERE, "fixtures", "session_build.json")))
    def bvariant(name, fn):
        c = copy.deepcopy(bbase); c["id"] = name; fn(c["ev"]); return c
    def other_labels(ev):
        first(ev, "permute")["g"]["labs"][0] += 1          # the result lives on another label set
    def stale_code(ev):
        first(ev, "build")["g"]["atoms"][0]["ic"][1] = 0   # the constructor kept a code without the isotope
    def lost_bond_data(ev):
        first(ev, "permute")["g"]["edges"][0][2] += ";x=1"  # a bond attribute is not what the argument's bond carried
    def not_renumbered(ev):
        first(ev, "canon")["g"]["labs"][-1] += 3           # the canonical graph is not numbered 0..n-1
    def raw_mutates(ev):
        first(ev, "serraw")["after"]["edges"].pop()        # serializing changed the bonds of its argument
    bcases = [bbase, bvariant("other-labels", other_labels), bvariant("stale-code", stale_code), bvariant("lost-bond-data", lost_bond_data),
              bvariant("not-renumbered", not_renumbered), bvariant("raw-mutates", raw_mutates)]
    bv = verdicts(bcases)
    bexpect = {bbase["id"]: None, "other-labels": "C16:label-set-changed", "stale-code": "R:build-invariant-code", "lost-bond-data": "C16:not-a-faithful-relabelled-copy",
               "not-renumbered": "C04:result-not-numbered-0..n-1", "raw-mutates": "C12:serialize-changed-bonds"}
    for k, want in bexpect.items():
        got = bv.get(k)
        okk = got is not None and ((want is None and not [c for c in got if not c.startswith("R:")]) or (want is not None and any(c.startswith(want) for c in got)))
        print(("ok   " if okk else "FAIL ") + f"{k}: expected {want or 'no clause'}, got {sorted(got) if got is not None else 'not explained'}")
        bad += 0 if okk else 1
    return 1 if bad or not ok else 0


if __name__ == "__main__":
    sys.exit(main())
