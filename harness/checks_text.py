"""Checks of the text formats: C06 (only identity data matter), C07 (V3000 reader), C08 (V2000 reader), C09 (writer)."""
from __future__ import annotations
import copy, glob, itertools, json, os, random
import gen, record, drivers, tlc, textgen
from record import Session
from checks import check, TRACE_CFG, validate_sessions, RULE, count_sessions


import locale
# graph_from_file opens files with the platform's default encoding: non-ASCII header lines are only put into files where that is UTF-8
UTF8_FILES = locale.getpreferredencoding(False).lower().replace("-", "") == "utf8"


def mc_molfile_cfg(spec, family, emit, invs, override=""):
    return (f"SPECIFICATION {spec}\nCONSTANTS Emit = {'TRUE' if emit else 'FALSE'} Family = \"{family}\"\n" + override
            + "".join(f"INVARIANT {i}\n" for i in invs) + ("CONSTRAINT EmitText\n" if emit else "") + "CHECK_DEADLOCK FALSE\n")


def design_molfile(out, spec, family, invs=("DecodesBack",), emit=False):
    r = out.design("MC_Molfile", mc_molfile_cfg(spec, family, emit, invs), expect_depth=3, workers=1 if emit else None,
                   label=f"MC_Molfile {spec} {family}")
    return [p for p in r.printed if isinstance(p, dict) and "lines" in p]


def spec_text_sessions(items, pfx, rng, limit):
    """spec -> code: texts rendered by the specification, read by the real reader"""
    if limit and len(items) > limit:
        items = rng.sample(items, limit)
    ss = []
    for i, it in enumerate(items):
        S = Session(f"spec{it['fmt']}-{i}")
        mol = it["mol"]
        M = {"atoms": mol["atoms"], "bonds": [tuple(b) for b in mol["bonds"]]}
        S.read(it["lines"], it["fmt"], pfx, mol=mol, floats=textgen.floats_of(M), eol=rng.choice(["\n", "\r\n"]))
        ss.append(S)
    return ss


def corpus_text_sessions(pfx, tier, rng, max_lines):
    ss = []
    files = sorted(glob.glob(os.path.join(gen.REPO, "tests/molfiles/*/*.mol")))
    rng.shuffle(files)
    for f in files[: (40 if tier == "quick" else 400)]:
        lines = open(f).read().splitlines()
        if len(lines) > max_lines or len(lines) < 4 or "V3000" not in lines[3]:
            continue
        fl = {}
        for l in lines:
            for t in l.split():
                try:
                    fl[t] = repr(float(t))
                except ValueError:
                    pass
        S = Session("corpus-" + os.path.basename(f)[:-4])
        a = S.read(lines, "V3000", pfx, floats=fl)
        b = S.read(lines, "V3000", pfx, floats=fl, via_file=True)          # graph_from_file must agree with graph_from_molfile_text
        if a and b:
            S.result("file-vs-text", json.dumps(record.project(S.objs[S.read_ids[a]]), sort_keys=True)[:0] + "same", pfx + ":graph_from_file-differs")
        ss.append(S)
    return ss


# ---------------------------------------------------------------------------------------------- C07
def v3000_random_sessions(rng, tier, n):
    ss = []
    for i in range(n):
        M = textgen.abstract_molecule(rng, 7, bigmass=i % 5 == 0)       # MASS values of any width (numbers are integers of any size)
        S = Session(f"v3-{i}")
        nat = len(M["atoms"])
        perm = gen.random_perm(rng, nat)
        lines, info = textgen.render_v3000(M, rng, perm=perm)
        # the molecule as the FILE lists it: atom k of M is the perm[k]-th atom
        Mf = permuted(M, perm)
        via_file = rng.random() < 0.15
        if via_file and UTF8_FILES:
            lines[rng.choice([0, 2])] = rng.choice(textgen.UNICODE_HEADERS)      # title / comment line in the file's encoding
        a = S.read(lines, "V3000", "C07", mol=textgen.mol_event(Mf), floats=textgen.floats_of(M), eol=rng.choice(["\n", "\n", "\r\n", "\r"]), via_file=via_file)
        # the same spelling with the defaults written out / left out: the reader must return the same graph
        if rng.random() < 0.6:
            st = rng.getstate()
            seed = rng.random()
            l1, _ = textgen.render_v3000(M, random.Random(seed), perm=perm, opts={"defaults": False, "cont": 0, "star": False})
            l2, _ = textgen.render_v3000(M, random.Random(seed), perm=perm, opts={"defaults": True, "cont": 0, "star": False})
            b = S.read(l1, "V3000", "C07", floats=textgen.floats_of(M))
            c = S.read(l2, "V3000", "C07", floats=textgen.floats_of(M))
            if b and c:
                S.sametext(b, c, list(range(nat)), "C07", strict=True, samegraph=True)
        ss.append(S)
    return ss


def v3000_history_sessions(rng, tier, n):
    """read a text, edit the returned graph in place, read the same text again: the reader must answer from the text"""
    ss = []
    for i in range(n):
        M = textgen.abstract_molecule(rng, 6)
        lines, _ = textgen.render_v3000(M, rng)
        S = Session(f"v3hist-{i}")
        a = S.read(lines, "V3000", "C07", mol=textgen.mol_event(M), floats=textgen.floats_of(M))
        if a:
            g = S.objs[a]
            x = rng.choice(list(g.nodes))
            g.nodes[x]["chg"] = 7
            g.nodes[x]["x_coord"] = 123.456
            g.add_node(g.number_of_nodes(), element_symbol="Xe", atomic_number=54, partition=0)
            S.read(lines, "V3000", "C07", mol=textgen.mol_event(M), floats=textgen.floats_of(M))
        ss.append(S)
    return ss


def v3000_samepath_sessions(rng, tier):
    """graph_from_file on one path whose content is replaced by another molfile of the same size with the same timestamps"""
    import tempfile, os as _os
    from tucan.io import graph_from_file
    ss = []
    for i in range(6 if tier == "quick" else 40):
        M = textgen.abstract_molecule(rng, 5, pool=["C", "N", "O", "S"], coords=["0", "1.5"])
        N = {"atoms": [dict(a) for a in M["atoms"]], "bonds": list(M["bonds"])}
        k = rng.randrange(len(N["atoms"]))
        N["atoms"][k]["sym"] = rng.choice([s for s in ["C", "N", "O", "S"] if s != N["atoms"][k]["sym"]])
        seed = rng.random()
        l1, _ = textgen.render_v3000(M, random.Random(seed), opts={"star": False, "cont": 0, "dt": False, "header": False})
        l2, _ = textgen.render_v3000(N, random.Random(seed), opts={"star": False, "cont": 0, "dt": False, "header": False})
        t1, t2 = "\n".join(l1) + "\n", "\n".join(l2) + "\n"
        if len(t1) != len(t2):
            continue
        S = Session(f"v3samepath-{i}")
        d = tempfile.mkdtemp(prefix="c07_")
        p = _os.path.join(d, "current.mol")
        try:
            for text, lines, mol in ((t1, l1, M), (t2, l2, N)):
                open(p, "w", newline="").write(text)
                _os.utime(p, ns=(1_600_000_000_000_000_000, 1_600_000_000_000_000_000))
                S.read(lines, "V3000", "C07", mol=textgen.mol_event(mol), floats=textgen.floats_of(mol), via_path=p)
        finally:
            import shutil
            shutil.rmtree(d, ignore_errors=True)
        ss.append(S)
    return ss


def v3000_hub_sessions(rng, tier):
    """multi-attachment bonds with ten and more endpoints"""
    ss = []
    for k in (9, 10, 11, 12, 15):
        M = {"atoms": [dict(sym="Fe", chg=0, rad=0, mass=0, x="0", y="0", z="0")] + [dict(sym="C", chg=0, rad=0, mass=0, x=str(i), y="1.5", z="0") for i in range(k)],
             "bonds": [(0, i, 9) for i in range(1, k + 1)] + [(i, i + 1, 4) for i in range(1, k)]}
        for rep in range(3):
            # force one star group that takes all bonds of the hub
            lines = None
            for attempt in range(40):
                l, info = textgen.render_v3000(M, rng, opts={"star": True, "cont": rng.choice([0, 1])})
                if any("ENDPTS=(" + str(k) + " " in x.replace("-\nM  V30 ", "") for x in ["\n".join(l)]):
                    lines = l
                    break
            if lines is None:
                continue
            S = Session(f"v3hub-{k}-{rep}")
            S.read(lines, "V3000", "C07", mol=textgen.mol_event(M), floats=textgen.floats_of(M))
            ss.append(S)
    return ss


def v3000_manylines_sessions(rng, tier):
    """a multi-attachment bond whose ENDPTS list is continued over more than a thousand physical lines (one endpoint per line)"""
    ss = []
    for k in ((1100,) if tier == "quick" else (1100, 2500)):
        atoms = [dict(sym="Fe", chg=0, rad=0, mass=0, x="0", y="0", z="0")] + [dict(sym="C", chg=0, rad=0, mass=0, x="1", y="0", z="0") for _ in range(k)]
        M = {"atoms": atoms, "bonds": [(0, i, 9) for i in range(1, k + 1)]}
        lines = ["", "  SPEC", "", "  0  0  0     0  0            999 V3000", "M  V30 BEGIN CTAB", f"M  V30 COUNTS {k + 2} 1 0 0 0", "M  V30 BEGIN ATOM"]
        lines += [f"M  V30 {i + 1} {a['sym']} {a['x']} {a['y']} {a['z']} 0" for i, a in enumerate(atoms)]
        lines += [f"M  V30 {k + 2} * 0 0 0 0", "M  V30 END ATOM", "M  V30 BEGIN BOND", f"M  V30 1 9 {k + 2} 1 ENDPTS=({k} -"]
        lines += [f"M  V30 {i} -" for i in range(2, k + 1)] + [f"M  V30 {k + 1}) ATTACH=ALL", "M  V30 END BOND", "M  V30 END CTAB", "M  END"]
        S = Session(f"v3manylines-{k}")
        S.read(lines, "V3000", "C07", mol=textgen.mol_event(M), floats=textgen.floats_of(M))
        ss.append(S)
    return ss


def version_word_sessions(rng, tier, fmt):
    """the word that says which table follows (last word of the fourth line), and the file name the file API insists on"""
    ss = []
    words = {"V3000": ["V3000", "V3000  ", "v3000", "V3000x", "V30000", "3000", "", "V2000 V3000"],
             "V2000": ["V2000", "V2000 ", "v2000", "V2000.", "2000", "V3000 V2000", "999V2000"]}[fmt]
    for i, w in enumerate(words):
        M = textgen.abstract_molecule(rng, 4, pool=["C", "N", "O"], coords=["0", "1.5"])
        for a in M["atoms"]:
            if a["rad"] not in (0, 2):
                a["rad"] = 2
        if fmt == "V2000" and not textgen.fits_v2000(M):
            continue
        lines, _ = (textgen.render_v3000 if fmt == "V3000" else textgen.render_v2000)(M, rng)
        l4 = lines[3].rstrip()
        lines[3] = l4[:len(l4) - 5] + w
        S = Session(f"version-{fmt}-{i}")
        S.read(lines, fmt, "C07" if fmt == "V3000" else "C08", floats=textgen.floats_of(M))
        ss.append(S)
    if fmt == "V3000":
        # the "no structure" record: a connection table without atoms (the writer itself produces it for an empty graph)
        for i, extra in enumerate([[], ["M  V30 BEGIN BOND", "M  V30 END BOND"]]):
            lines = ["", "  SPEC", "", "  0  0  0     0  0            999 V3000", "M  V30 BEGIN CTAB", "M  V30 COUNTS 0 0 0 0 0", "M  V30 BEGIN ATOM", "M  V30 END ATOM"] + extra + ["M  V30 END CTAB", "M  END"]
            S = Session(f"no-structure-{i}")
            S.read(lines, "V3000", "C07", mol={"atoms": [], "bonds": []}, floats={})
            ss.append(S)
    for i, sfx in enumerate([".mol", ".sdf", ".MOL", ".mol2", ""]):
        M = textgen.abstract_molecule(rng, 4, pool=["C", "N", "O"], coords=["0", "1.5"])
        for a in M["atoms"]:
            if a["rad"] not in (0, 2):
                a["rad"] = 2
        if fmt == "V2000" and not textgen.fits_v2000(M):
            continue
        lines, _ = (textgen.render_v3000 if fmt == "V3000" else textgen.render_v2000)(M, rng)
        S = Session(f"suffix-{fmt}-{i}")
        S.read(lines, fmt, "C07" if fmt == "V3000" else "C08", mol=textgen.mol_event(M), floats=textgen.floats_of(M), via_file=True, suffix=sfx)
        ss.append(S)
    return ss


def permuted(M, perm):
    n = len(M["atoms"])
    atoms = [None] * n
    for k, a in enumerate(M["atoms"]):
        atoms[perm[k]] = dict(a)
    bonds = [(min(perm[p], perm[q]), max(perm[p], perm[q]), t) for p, q, t in M["bonds"]]
    return {"atoms": atoms, "bonds": sorted(bonds)}


def molfile_controls(out, which):
    """the bounded models fail when the specification is given the pinned tree's reading (non-vacuity)"""
    if which == "C07":
        out.design("MC_Molfile", mc_molfile_cfg("Spec3", "small", False, ("DecodesBack",), override="  SubstringKeys <- TrueConst\n"), must_fail="DecodesBack",
                   label="control: substring keyword match (EXACHG read as CHG)")
    else:
        out.design("MC_Molfile", mc_molfile_cfg("Spec2", "small", False, ("DecodesBack",), override="  ClearDTOnISO <- TrueConst\n"), must_fail="DecodesBack",
                   label="control: M  ISO erases D / T masses")


@check("C07")
def c07(out, tier, rng):
    items = design_molfile(out, "Spec3", "small", emit=True)
    items += design_molfile(out, "Spec3", "cont", emit=True) if tier == "thorough" else []
    if tier == "quick":
        design_molfile(out, "Spec3", "cont")
    else:
        molfile_controls(out, "C07")
    out.extra["spec_to_code_inputs"] = len(items)
    ss = spec_text_sessions(items, "C07", rng, 700 if tier == "quick" else None)
    ss += v3000_random_sessions(rng, tier, 250 if tier == "quick" else 4000)
    ss += v3000_history_sessions(rng, tier, 15 if tier == "quick" else 150)
    ss += v3000_hub_sessions(rng, tier)
    ss += v3000_samepath_sessions(rng, tier)
    ss += v3000_manylines_sessions(rng, tier)
    ss += version_word_sessions(rng, tier, "V3000")
    ss += corpus_text_sessions("C07", tier, rng, 120 if tier == "quick" else 400)
    for s in ss:
        out.count(("c07", json.dumps(s.ev[0].get("lines", []))[:2000]), nontrivial=True)
    validate_sessions(out, ss, "C07:", rl=0)
    out.extra["rule"] = ("cases = V3000 texts (rendered by the specification for every spelling choice of the bounded model, by the seeded "
                         "spelling generator, or taken from the corpus) read by the real reader; TLC decodes each text with "
                         "spec/MolV3000.tla and compares attribute by attribute; distinct = distinct texts")
    out.assumptions += ["float(), int() and str.splitlines() are outside the model: coordinates are compared through the literal -> repr(float(literal)) table supplied by the harness"]


# ---------------------------------------------------------------------------------------------- C08
def v2000_sessions(rng, tier, n):
    ss = []
    for i in range(n):
        big = i < (3 if tier == "quick" else 12)
        M = textgen.abstract_molecule(rng, 12, coords=(["0.0000"] if i % 4 == 1 else ["0.0000", "1.2500", "-2.5000", "10.0000", "", "0"]), pool=["C", "H", "H", "O", "N", "Cl"] if big else None)
        if big:
            # a chain of more than 99 atoms, so that bond lines with two three-digit atom numbers occur
            n_at = rng.randint(101, 108)
            M["atoms"] = [dict(rng.choice(M["atoms"])) for _ in range(n_at)]
            M["bonds"] = [(j, j + 1, 1) for j in range(n_at - 1)]
        if not textgen.fits_v2000(M):
            continue
        for a in M["atoms"]:
            if a["rad"] not in (0, 2) and rng.random() < 0.5:
                a["rad"] = 2
        S = Session(f"v2-{i}")
        nat = len(M["atoms"])
        perm = gen.random_perm(rng, nat) if not big else list(range(nat))
        l2, info = textgen.render_v2000(M, rng, perm=perm)
        Mf = permuted(M, perm)
        a = S.read(l2, "V2000", "C08", mol=textgen.mol_event(Mf), floats=textgen.floats_of(M))
        M3 = copy.deepcopy(M)
        for at in M3["atoms"]:
            for kk in "xyz":
                at[kk] = at[kk] or "0"          # a blank V2000 coordinate field is zero
        l3, _ = textgen.render_v3000(M3, rng, perm=perm, opts={"star": False})
        b = S.read(l3, "V3000", "C07", floats=textgen.floats_of(M3))
        for x in (a, b):
            if x:
                c = S.canon(x)
                if c:
                    S.ser(c)
        if a and b:
            S.sametext(a, b, list(range(nat)), "C08", strict=True)
        ss.append(S)
    return ss


def corpus_v2000_sessions(rng):
    ss = []
    for f in sorted(glob.glob(os.path.join(gen.REPO, "tests/molfiles_v2000/*/*.mol"))):
        name = os.path.basename(f)[:-4]
        f3 = os.path.join(gen.REPO, "tests/molfiles", name, name + ".mol")
        if not os.path.exists(f3):
            continue
        l2, l3 = open(f).read().splitlines(), open(f3).read().splitlines()
        fl = {}
        for l in l2:
            for fld in (l[0:10], l[10:20], l[20:30]):
                try:
                    fl[fld.strip()] = repr(float(fld))
                except ValueError:
                    pass
        for l in l3:
            for t in l.split():
                try:
                    fl[t] = repr(float(t))
                except ValueError:
                    pass
        S = Session("v2corpus-" + name)
        a = S.read(l2, "V2000", "C08", floats=fl)
        b = S.read(l3, "V3000", "C07", floats=fl)
        n = S.objs[a].number_of_nodes() if a else 0
        for x in (a, b):
            if x:
                c = S.canon(x)
                if c:
                    S.ser(c)
        if a and b:
            S.sametext(a, b, list(range(n)), "C08", strict=True)
        ss.append(S)
    return ss


@check("C08")
def c08(out, tier, rng):
    items = design_molfile(out, "Spec2", "small", invs=("DecodesBack", "FormatsAgree"), emit=True)
    if tier == "thorough":
        molfile_controls(out, "C08")
    out.extra["spec_to_code_inputs"] = len(items)
    ss = spec_text_sessions(items, "C08", rng, 700 if tier == "quick" else None)
    ss += v2000_sessions(rng, tier, 200 if tier == "quick" else 3000)
    ss += corpus_v2000_sessions(rng)
    ss += version_word_sessions(rng, tier, "V2000")
    for s in ss:
        out.count(("c08", json.dumps(s.ev[0].get("lines", []))[:2000]), nontrivial=True)
    validate_sessions(out, ss, "C08:", rl=0)
    out.extra["rule"] = ("cases = V2000 texts (every encoding choice of the bounded model; seeded generator: charge codes vs. property lines, "
                         "stale codes, grouping 1..8, zero entries, D/T with and without ISO, unrelated lines, atom lists, SD trailers, up to "
                         "120 atoms) read by the real reader next to a V3000 rendering of the same molecule; decoded and compared by TLC")
    out.assumptions += ["the mass-difference field of the atom block is always written as 0 (the statement names only M  ISO)"]


# ---------------------------------------------------------------------------------------------- C06
def nonidentity_variant(M, rng):
    """same atoms (element, mass, radical) and the same bonded pairs; everything else redrawn"""
    N = copy.deepcopy(M)
    flat = rng.random() < 0.3          # a drawing without coordinates: every atom at the origin
    for a in N["atoms"]:
        a["x"], a["y"], a["z"] = ("0", "0", "0") if flat else (rng.choice(textgen.COORDS) for _ in range(3))
        a["chg"] = rng.choice([0, 0, 1, -1, 2])
    N["bonds"] = [(p, q, rng.choice([1, 2, 3, 4, 5, 8, 9, 10])) for p, q, t in N["bonds"]]
    return N


@check("C06")
def c06(out, tier, rng):
    design_molfile(out, "Spec3", "small")
    design_molfile(out, "Spec2", "small", invs=("DecodesBack", "FormatsAgree"))
    ss = []
    n = 160 if tier == "quick" else 2500
    for i in range(n):
        M = textgen.abstract_molecule(rng, 8, coords=["0", "1.5", "-2.25", "3.125"])
        for a in M["atoms"]:
            if a["rad"] not in (0, 2):
                a["rad"] = 2
        nat = len(M["atoms"])
        S = Session(f"c06-{i}")
        ids, rids = [], []
        perms = []
        for v in range(rng.choice([2, 3])):
            N = M if v == 0 else nonidentity_variant(M, rng)
            perm = gen.random_perm(rng, nat)
            if rng.random() < 0.35 and textgen.fits_v2000(N):
                lines, _ = textgen.render_v2000(N, rng, perm=perm)
                fmt = "V2000"
            else:
                lines, _ = textgen.render_v3000(N, rng, perm=perm)
                fmt = "V3000"
            via_file = rng.random() < 0.3
            if via_file and UTF8_FILES and rng.random() < 0.6:
                lines[rng.choice([0, 2])] = rng.choice(textgen.UNICODE_HEADERS)      # title / comment line in the file's encoding
            x = S.read(lines, fmt, "C07" if fmt == "V3000" else "C08", floats=textgen.floats_of(N), eol=rng.choice(["\n", "\r\n", "\n", "\r\n", "\r"]), via_file=via_file)
            ids.append(x); perms.append(perm); rids.append(S.last_read)
        for x in ids:
            if x:
                c = S.canon(x)
                if c:
                    S.ser(c)
        for j in range(1, len(ids)):
            # atom at file position perms[0][k] in text 0 is atom k of M, which sits at perms[j][k] in text j
            # (stated for the TEXTS: also when the reader rejected one of them)
            inv0 = {perms[0][k]: k for k in range(nat)}
            S.sametext(rids[0], rids[j], [perms[j][inv0[p]] for p in range(nat)], "C06", strict=False)
        ss.append(S)
    # corpus files re-rendered with perturbed non-identity data
    for name, g in gen.corpus(40)[: (15 if tier == "quick" else 200)]:
        M = textgen.from_graph(g)
        nat = len(M["atoms"])
        S = Session("c06-corpus-" + name)
        N = nonidentity_variant(M, rng)
        p1, p2 = list(range(nat)), gen.random_perm(rng, nat)
        l1, _ = textgen.render_v3000(M, rng, perm=p1)
        l2, _ = textgen.render_v3000(N, rng, perm=p2)
        a = S.read(l1, "V3000", "C07", floats=textgen.floats_of(M))
        b = S.read(l2, "V3000", "C07", floats=textgen.floats_of(N))
        for x in (a, b):
            if x:
                c = S.canon(x)
                if c:
                    S.ser(c)
        if a and b:
            S.sametext(a, b, p2, "C06", strict=False)
        ss.append(S)
    for s in ss:
        out.count(("c06", json.dumps(s.ev[0].get("lines", []))[:2000]), nontrivial=True)
    validate_sessions(out, ss, "C06:", rl=0)
    out.extra["rule"] = ("cases = pairs / triples of molfile texts of one molecule that differ only in non-identity data (coordinates, bond types, "
                         "charges, headers, index values, keywords, trailing blocks, line endings, V2000 vs V3000); the specification decodes both "
                         "texts and verifies that they state the same atoms and bonded pairs before their TUCAN strings are compared")
    out.assumptions += ["the pairing of the texts is verified on the molecules the specification decodes, never on what the reader returned"]


# ---------------------------------------------------------------------------------------------- C09
def writer_graphs(rng, tier):
    """graphs within the format's ranges, with line lengths steered across the wrap boundaries"""
    out = []
    M = gen.mol
    # steer the atom line length: the integer part of x grows digit by digit, y is negative, so that the blank before y and
    # y's minus sign visit every column around 71, 142, 213
    ks = list(range(40, 80)) + list(range(110, 150, 1)) + list(range(180, 220, 2))
    if tier == "quick":
        ks = ks[::2]
    for k in ks:
        for sym, idxpad in (("C", 0), ("Cl", 0), ("C", 11)):
            n = 1 + idxpad
            atoms = [("C", 0, 0, 0)] * idxpad + [(sym, rng.choice([0, 13]), rng.choice([0, 2]), rng.choice([0, -3, 2]))]
            g = M(atoms, [])
            a = n - 1
            g.nodes[a]["x_coord"] = float("1" + "0" * k) * rng.choice([1, -1])
            g.nodes[a]["y_coord"] = -1.5
            g.nodes[a]["z_coord"] = rng.choice([0.0, -2.25, 1e3])
            out.append((f"len{k}-{sym}-{idxpad}", g))
    for i in range(60 if tier == "quick" else 900):
        g = gen.random_molecule(rng, 8, label_p=0.4)
        for a in g.nodes:
            mag = rng.choice([1, 1, 1e3, 1e10, 1e20, 1e40, 1e60, 1e120, 1e300])
            for c in ("x_coord", "y_coord", "z_coord"):
                g.nodes[a][c] = rng.uniform(-1, 1) * mag * rng.choice([1, 1, 0])
            if rng.random() < 0.3:
                g.nodes[a]["chg"] = rng.choice([-15, -3, -1, 1, 2, 15])
        for a, b in g.edges:
            g.edges[a, b]["bond_type"] = rng.choice([1, 2, 3, 4, 9, 10])
        out.append((f"wr{i}", g))
    return out


@check("C09")
def c09(out, tier, rng):
    out.design("Writer", "MC_Writer.cfg", expect_depth=2, label="MC_Writer CutAt=71 FitLen=72 MaxLen=300")
    if tier == "thorough":
        out.design("Writer", "MC_Writer_neg.cfg", must_fail="WriterOK", label="negative control CutAt=72")
    ss = []
    from tucan.io import graph_from_molfile_text
    for name, g in writer_graphs(rng, tier):
        S = Session("c09-" + name)
        o = S.input(g)
        lines = S.write(o)
        if lines:
            fl = textgen.floats_from_lines(lines)
            rb = S.read(lines, "V3000", "C09", floats=fl)
        ss.append(S)
    # write - read - edit the graph that was read - read the first text again (the reader must answer from the text)
    for i in range(10 if tier == "quick" else 100):
        g = gen.random_molecule(rng, 6, label_p=0.3)
        S = Session(f"c09-reread-{i}")
        o = S.input(g)
        lines = S.write(o)
        if lines:
            fl = textgen.floats_from_lines(lines)
            rb = S.read(lines, "V3000", "C09", floats=fl)
            if rb:
                h = S.objs[rb]
                a = rng.choice(list(h.nodes))
                h.nodes[a]["mass"] = 3; h.nodes[a]["chg"] = -2
                h.add_node(h.number_of_nodes(), element_symbol="O", atomic_number=8, partition=0, mass=18, rad=2)
                S.read(lines, "V3000", "C09", floats=fl)
        ss.append(S)
    # labels need not be 0..n-1: wide (bond lines wrap too) and sparse (a fragment cut out of a larger graph) atom numbers
    import networkx as nx
    for i in range(12 if tier == "quick" else 120):
        g = gen.random_molecule(rng, 6, label_p=0.3, density=0.6)
        n = g.number_of_nodes()
        kind = rng.choice(["wide", "sparse", "huge"])
        lab = {a: (10 ** rng.choice([20, 33, 38]) + a * 7 if kind == "wide" else (3 * a + rng.randint(0, 2) if kind == "sparse" else 2 ** 127 + a)) for a in g.nodes}
        big = nx.relabel_nodes(g, lab, copy=True)
        S = Session(f"c09-labels-{kind}-{i}")
        o = S.input(g)
        lines = S.write(o, live=big, relabel=lab)
        if lines:
            fl = textgen.floats_from_lines(lines)
            S.read(lines, "V3000", "C09", floats=fl)
        ss.append(S)
    # calculated coordinates (the writer lays the atoms out itself): mixtures of several fragments, atoms and bonds as before
    for i in range(12 if tier == "quick" else 120):
        frs = [gen.random_molecule(rng, rng.randint(1, 4), label_p=0.3, density=0.8) for _ in range(rng.randint(2, 4))]
        import networkx as nx
        g = frs[0]
        for f in frs[1:]:
            g = nx.disjoint_union(g, f)
        S = Session(f"c09-calc-{i}")
        o = S.input(g)
        lines = S.write(o, calc=True)
        if lines:
            rb = S.read(lines, "V3000", "C09", floats=textgen.floats_from_lines(lines))
            if rb and record._check_iso(S.objs[o], S.objs[rb], list(range(g.number_of_nodes()))):
                S.same(o, rb, list(range(g.number_of_nodes())))
                c2 = S.canon(rb)
                if c2:
                    S.ser(c2)
        ss.append(S)
    # string -> graph -> molfile -> graph -> string, also for graphs whose atoms are not listed in label order
    pool = drivers.molecule_pool(rng, tier, n_random=40 if tier == "quick" else 400, corpus_n=10 if tier == "quick" else 150) + drivers.special_molecules()
    for name, g in pool:
        S = Session("c09rt-" + name)
        o = S.input(g)
        c = S.canon(o)
        if not c:
            continue
        s = S.ser(c)
        targets = [c]
        if s:
            p = S.parse(s, of=c)
            if p:
                targets.append(p)
        for t in targets:
            lines = S.write(t)
            if not lines:
                continue
            fl = textgen.floats_from_lines(lines)
            rb = S.read(lines, "V3000", "C09", floats=fl)
            if rb:
                # read-back atom i is the i-th atom the written graph lists: claimed only when the harness sees it hold
                G, R = S.objs[t], S.objs[rb]
                order = list(G.nodes)
                w = [None] * len(order)
                for i, a in enumerate(order):
                    w[a] = i
                if record._check_iso(G, R, w):
                    S.same(t, rb, w)
                c2 = S.canon(rb)
                if c2:
                    S.ser(c2)
        ss.append(S)
    count_sessions(out, ss, "c09")
    v = validate_sessions(out, ss, "C09:", rl=0)
    # the consequence: the round trip returns the original string (registry clause inside a round-trip session)
    for k, p in v.items():
        if k.startswith("c09rt-"):
            cl = [c for c in p.get("viol", []) if c.startswith("C01:")]
            if cl:
                rec = next(s.record() for s in ss if s.id == k)
                out.violations.append({"clause": "C09:round-trip-changes-the-string(" + cl[0] + ")", "case": k, "replay": out.write_replay(rec, cl)})
    out.extra["rule"] = RULE + "; C09: every written text is decoded by spec/MolV3000.tla and compared with the graph; line lengths are steered across the wrap columns"
    out.assumptions += ["six-decimal coordinates are computed independently with exact decimal arithmetic and compared with the literals the decoder finds"]
