"""Common machinery of all checks: design-level TLC runs, validation of recorded sessions by TLC, verdicts,
replay files, evidence files, known findings.

Exit codes:  0 property held on everything explored (KNOWN-FINDING / NOTE lines possible)
             1 VIOLATION property=<id> replay=<path>
             2 machinery failure (TLC crashed, a session was not explainable, a harness obligation failed)"""
from __future__ import annotations
import json, os, sys, time, hashlib
import tlc

VERIF = os.path.normpath(os.path.join(os.path.dirname(os.path.abspath(__file__)), ".."))
EVID = os.path.join(VERIF, "evidence")
REPLAY = os.path.join(VERIF, "replay")


def known_findings(pid):
    try:
        kf = json.load(open(os.path.join(VERIF, "known_findings.json")))
    except Exception:
        return []
    return [f for f in kf.get("open", []) if f.get("property") == pid]


class Outcome:
    def __init__(self, pid, tier, seed, level="model_checking"):
        self.pid, self.tier, self.seed, self.level = pid, tier, seed, level
        self.t0 = time.time()
        self.states = self.transitions = 0
        self.design_runs = []          # per TLC design run: module, cfg, states, depth, wall
        self.traces = 0                # sessions / cases validated against the implementation
        self.events = 0
        self.samples = []
        self.violations = []           # dicts: clause, case id, replay path
        self.known = []
        self.notes = []                # spec drift etc.
        self.assumptions = []
        self.extra = {}
        self.distinct = set()
        self.evaluations = 0

    # ---- design level
    def design(self, module, cfg, expect_depth=None, must_fail=None, workers=None, timeout=3600, label=None, **kw):
        """run a bounded model; must_fail = name of the invariant a negative control is expected to violate"""
        r = tlc.run(module, cfg, workers=workers or tlc.NCPU, timeout=timeout, **kw)
        rec = {"module": module, "cfg": label or (cfg if "\n" not in cfg else "inline"), "states": r.distinct,
               "transitions": r.generated, "depth": r.depth, "wall_s": round(r.wall, 1)}
        if must_fail:
            rec["negative_control_violates"] = r.violated_invariant
            if r.violated_invariant != must_fail:
                raise tlc.MachineryError(f"negative control {module}/{rec['cfg']} did not violate {must_fail} "
                                         f"(got {r.violated_invariant}, rc={r.rc}):\n{r.error_text(1500)}")
        else:
            if r.rc != 0:
                self.violations.append({"clause": f"design:{module}:{r.violated_invariant or 'error'}",
                                        "case": rec["cfg"], "detail": r.error_text(3000)})
            if expect_depth is not None and r.rc == 0 and r.depth < expect_depth:
                raise tlc.MachineryError(f"vacuous design run {module}/{rec['cfg']}: depth {r.depth} < {expect_depth}")
            self.states += r.distinct
            self.transitions += r.generated
        self.design_runs.append(rec)
        return r

    # ---- code -> spec
    def validate(self, module, cfg, cases, prefix, shards=None, timeout=3600, env=None, id_key="id", harness_prefix="H:"):
        """TLC validates recorded cases; every case must be reported back (explained to its end).
        Clauses starting with `prefix` are violations of this property; 'R:' clauses are drift notes; harness
        clauses abort with exit 2.  Clauses of other properties are ignored here (their own checks report them)."""
        if not cases:
            return {}
        res = tlc.run_sharded(module, cfg, cases, shards=shards, timeout=timeout, env=env)
        verdicts = {}
        for r in res:
            if r.rc != 0:
                raise tlc.MachineryError(f"TLC rc={r.rc} while validating {module}:\n{r.error_text(3000)}")
            self.states += r.distinct
            self.transitions += r.generated
            for p in r.printed:
                if isinstance(p, dict) and "id" in p:
                    verdicts[p["id"]] = p
        byid = {c[id_key]: c for c in cases}
        missing = [k for k in byid if k not in verdicts]
        if missing:
            raise tlc.MachineryError(f"{len(missing)} case(s) were not explained to their end by {module}, e.g. {missing[:3]}; "
                                     f"events: {[e.get('op') for e in byid[missing[0]].get('ev', [])][:20]}")
        for k, v in verdicts.items():
            cl = v.get("viol", [])
            bad = [c for c in cl if c.startswith(harness_prefix)]
            if bad:
                path = self.write_replay(byid[k], bad)
                raise tlc.MachineryError(f"harness obligation failed in case {k}: {bad} (see {path})")
            mine = [c for c in cl if c.startswith(prefix)]
            drift = [c for c in cl if c.startswith("R:")]
            for c in drift:
                self.notes.append(f"spec-drift {c} in case {k}")
            if mine:
                path = self.write_replay(byid[k], mine)
                self.violations.append({"clause": ";".join(sorted(mine)), "case": k, "replay": path})
        self.traces += len(cases)
        self.events += sum(len(c.get("ev", [])) or 1 for c in cases)
        return verdicts

    def write_replay(self, case, clauses):
        d = os.path.join(REPLAY, self.pid)
        os.makedirs(d, exist_ok=True)
        h = hashlib.sha1(json.dumps(case, sort_keys=True).encode()).hexdigest()[:10]
        path = os.path.join(d, f"{str(case.get('id', 'case')).replace('/', '_')[:60]}-{h}.json")
        json.dump({"property": self.pid, "clauses": clauses, "tier": self.tier, "seed": self.seed, "case": case},
                  open(path, "w"), indent=1)
        return path

    def sample(self, x):
        if len(self.samples) < 6:
            self.samples.append(x)

    def count(self, key, nontrivial=True):
        self.evaluations += 1
        if nontrivial:
            self.distinct.add(key)

    # ---- finishing
    def finish(self, rule="", trusted=None):
        os.makedirs(EVID, exist_ok=True)
        kf = known_findings(self.pid)
        real = []
        for v in self.violations:
            hit = next((f for f in kf if f.get("match") and f["match"] in (v.get("clause", "") + " case=" + str(v.get("case", "")))), None)
            if hit:
                self.known.append((hit, v))
            else:
                real.append(v)
        cov = {"states": max(self.states, 0), "transitions": max(self.transitions, 0),
               "traces_validated_against_impl": self.traces, "events_validated": self.events,
               "samples": self.samples or ["(none)"], "design_runs": self.design_runs,
               "evaluations": self.evaluations, "distinct_nontrivial": len(self.distinct), "rule": rule,
               "spec_drift_notes": self.notes[:20], "exhaustive": False}
        cov.update(self.extra)
        ev = {"property_id": self.pid, "tier": self.tier, "seed": self.seed, "level": self.level, "coverage": cov,
              "assumptions": self.assumptions + (trusted or []), "wall_s": round(time.time() - self.t0, 2),
              "violations": len(real), "known_findings_seen": [f["id"] for f, _ in self.known]}
        json.dump(ev, open(os.path.join(EVID, self.pid + ".json"), "w"), indent=1)
        for n in self.notes[:10]:
            print("NOTE:", n)
        for f, v in self.known:
            print(f"KNOWN-FINDING: property={self.pid} {f.get('what', f.get('id'))}")
        for v in real:
            print(f"VIOLATION property={self.pid} replay={v.get('replay', '-')}  [{v.get('clause')}] case={v.get('case')}")
            if v.get("detail"):
                print(v["detail"][:1500])
        print(f"{self.pid} {self.tier}: states={self.states} transitions={self.transitions} traces={self.traces} "
              f"events={self.events} violations={len(real)} wall={ev['wall_s']}s")
        return 1 if real else 0
