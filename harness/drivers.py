"""Drivers: they put the real library through sessions and return the recorded event logs (code -> spec),
or materialise TLC-enumerated inputs and do the same (spec -> code)."""
from __future__ import annotations
import copy, itertools, json, random
import networkx as nx
import gen, record, tlc, textgen
from record import Session, relabel


# ------------------------------------------------------------------ spec -> code: inputs enumerated by TLC
def spec_enumerated(maxn, palette, limit=None, seed=0):
    """every molecule (and relabelling generator) of the bounded model MC_Tucan, as printed by TLC itself"""
    cfg = f"""SPECIFICATION ESpec
CONSTANTS RLimit = 99 BFLimit = 6 MaxN = {maxn} AnyLabelling = FALSE Adapter = "apply"
  Palette <- {palette}
CONSTRAINT EmitInputs
CHECK_DEADLOCK FALSE
"""
    r = tlc.run("MC_Tucan", cfg, workers=1, timeout=1800)
    if r.rc != 0:
        raise tlc.MachineryError("enumeration of the bounded model failed:\n" + r.error_text())
    items = [p for p in r.printed if isinstance(p, dict) and "col" in p]
    if limit and len(items) > limit:
        rng = random.Random(seed)
        items = rng.sample(items, limit)
    out = []
    for it in items:
        atoms = [(gen.SYMBOLS[c[0] - 1], c[1], c[2], 0) for c in it["col"]]
        bonds = [(e[0] - 1, e[1] - 1, 1) for e in it["edges"]]
        out.append((gen.mol(atoms, bonds), [x - 1 for x in it["perm"]]))
    return out, r


# ------------------------------------------------------------------ one molecule, several descriptions
def pipeline_session(sid, g, rng, perms=None, k=2, feedback=False, repeat=False, nonidentity=False,
                     unordered=True, parse_back=True, note="", plain=0):
    """plain: the first `plain` renumberings are applied as they are (atoms listed in label order, no other listing order drawn)"""
    S = Session(sid, note)
    if rng.random() < 0.3:
        # annotations users attach under everyday names (atom numbers of a file, identifiers, weights) and a graph-level note
        style = rng.choice(["int", "text"])
        for a in g.nodes:
            g.nodes[a]["name"] = (a + 1) if style == "int" else f"atom{a}"
            g.nodes[a]["id"] = str(a)
            g.nodes[a]["label"] = g.number_of_nodes() - a
        for a, b in g.edges:
            g.edges[a, b]["weight"] = 1.5
            g.edges[a, b]["name"] = f"{a}-{b}"
        g.graph["title"] = "a note"
        g.graph["history"] = {"steps": [1, 2]}
    o = S.input(g)
    n = g.number_of_nodes()
    objs = [o]
    for pi, p in enumerate(perms if perms is not None else [gen.random_perm(rng, n) for _ in range(k)]):
        if pi < plain:
            h = relabel(S.objs[o], p, rng)
        elif unordered and rng.random() < 0.3:
            # the way a user of networkx renumbers a graph: atoms keep their listing order, graph-level data is kept
            h = nx.relabel_nodes(S.objs[o], {a: p[a] for a in S.objs[o].nodes}, copy=True)
        else:
            h = relabel(S.objs[o], p, rng)
            if unordered and rng.random() < 0.5:
                h = reorder_nodes(h, rng)
        objs.append(S.derive(o, h, p))
    if nonidentity:
        h = perturb_nonidentity(S.objs[o], rng)
        objs.append(S.derive(o, h, list(range(n)), kind="nonidentity"))
    canons = []
    for x in objs:
        c = S.canon(x)
        if c is None:
            continue
        canons.append(c)
        s = S.ser(c)
        if repeat:
            S.ser(c)
            c_again = S.canon(x)
            if c_again:
                S.ser(c_again)
        if feedback and rng.random() < 0.5:
            # a renumbered copy of the canonical graph, made with networkx (keeps whatever the library attached to the graph)
            q = gen.random_perm(rng, n)
            K = S.objs[c]
            if sorted(K.nodes) == list(range(n)):
                hk = nx.relabel_nodes(K, {a: q[a] for a in K.nodes}, copy=True)
                dk = S.derive(c, hk, q)
                ck = S.canon(dk)
                if ck:
                    S.ser(ck)
        if feedback:
            cc = S.canon(c)          # a canonical graph is a legitimate description too (atoms not listed in label order)
            if cc:
                s2 = S.ser(cc)
                if s2 is not None and parse_back:
                    pp = S.parse(s2, of=cc)
                    if pp:
                        c3 = S.canon(pp)
                        if c3:
                            S.ser(c3)
        if s is not None and parse_back and (x == objs[0] or parse_back == "all"):
            pp = S.parse(s, of=c)
            if pp:
                c2 = S.canon(pp)
                if c2:
                    S.ser(c2)
    return S


def reorder_nodes(g, rng):
    """same labels, same data, atoms listed in another order"""
    nodes = list(g.nodes(data=True))
    rng.shuffle(nodes)
    h = nx.Graph()
    h.add_nodes_from((a, copy.deepcopy(d)) for a, d in nodes)
    h.add_edges_from((a, b, copy.deepcopy(d)) for a, b, d in g.edges(data=True))
    return h


def perturb_nonidentity(g, rng):
    """another drawing: coordinates, charges, bond types and extra attributes changed; identity untouched"""
    h = copy.deepcopy(g)
    for a in h.nodes:
        d = h.nodes[a]
        for k in ("x_coord", "y_coord", "z_coord"):
            d[k] = round(rng.uniform(-9, 9), 4)
        d.pop("chg", None)
        if rng.random() < 0.3:
            d["chg"] = rng.choice([-1, 1, 2])
        d["_note"] = rng.choice(["a", "b"])
    for a, b in h.edges:
        h.edges[a, b]["bond_type"] = rng.choice([1, 2, 3, 4])
    return h


# ------------------------------------------------------------------ molecule pools
def molecule_pool(rng, tier, corpus_cap=40, n_random=60, nmax=8, corpus_n=12):
    pool = []
    fam = gen.symmetric_families(rng)
    if tier == "quick":
        # a seeded sample of the families, always including the multi-fragment ones
        keep = [x for x in fam if x[0].startswith("twins") or "Cl" in x[0] or "frag" in x[0] or x[0] == "ferrocene"]
        rest = [x for x in fam if x not in keep]
        rng.shuffle(rest)
        fam = keep + rest[:48]
    for name, g in fam:
        pool.append((name, g))
    for i in range(n_random):
        pool.append((f"rnd{i}", gen.random_molecule(rng, nmax)))
    pool += gen.hub_pairs(rng, 10 if tier == "quick" else 120)
    pool += gen.multi_labelled(rng, 8 if tier == "quick" else 60)
    cs = gen.corpus(corpus_cap)
    rng.shuffle(cs)
    pool += cs[:corpus_n]
    return pool


def special_molecules():
    """hand-made stress molecules: Hill order with / without carbon, symbol order vs Z order, both attributes on
    one atom, attributes on different atoms, large isotope masses, counts >= 10, bond-free atoms"""
    M = gen.mol
    out = []
    out.append(("HCl", M([("H", 0, 0, 0), ("Cl", 0, 0, 0)], [(0, 1, 1)])))
    out.append(("CHCl3", M([("C", 0, 0, 0), ("H", 0, 0, 0), ("Cl", 0, 0, 0), ("Cl", 0, 0, 0), ("Cl", 0, 0, 0)],
                           [(0, 1, 1), (0, 2, 1), (0, 3, 1), (0, 4, 1)])))
    out.append(("NaOH", M([("Na", 0, 0, 0), ("O", 0, 0, 0), ("H", 0, 0, 0)], [(0, 1, 1), (1, 2, 1)])))
    out.append(("13CH3rad", M([("C", 13, 2, 0), ("H", 0, 0, 0), ("H", 0, 0, 0), ("H", 0, 0, 0)], [(0, 1, 1), (0, 2, 1), (0, 3, 1)])))
    out.append(("18O-hydroxymethyl", M([("C", 0, 2, 0), ("H", 0, 0, 0), ("H", 0, 0, 0), ("O", 18, 0, 0), ("H", 0, 0, 0)],
                                       [(0, 1, 1), (0, 2, 1), (0, 3, 1), (3, 4, 1)])))
    out.append(("CH2D-OH", M([("C", 0, 0, 0), ("H", 2, 0, 0), ("H", 0, 0, 0), ("H", 0, 0, 0), ("O", 0, 0, 0), ("H", 0, 0, 0)],
                             [(0, 1, 1), (0, 2, 1), (0, 3, 1), (0, 4, 1), (4, 5, 1)])))
    out.append(("CH3-OD", M([("C", 0, 0, 0), ("H", 0, 0, 0), ("H", 0, 0, 0), ("H", 0, 0, 0), ("O", 0, 0, 0), ("H", 2, 0, 0)],
                            [(0, 1, 1), (0, 2, 1), (0, 3, 1), (0, 4, 1), (4, 5, 1)])))
    out.append(("allyl-rad", M([("C", 0, 2, 0), ("C", 0, 0, 0), ("C", 0, 0, 0)] + [("H", 0, 0, 0)] * 5,
                               [(0, 1, 1), (1, 2, 2), (0, 3, 1), (0, 4, 1), (1, 5, 1), (2, 6, 1), (2, 7, 1)])))
    out.append(("He2-3He", M([("He", 3, 0, 0), ("He", 0, 0, 0)], [])))
    out.append(("HDT", M([("H", 0, 0, 0), ("H", 2, 0, 0), ("H", 3, 0, 0)], [])))
    out.append(("ArO2rad", M([("Ar", 0, 0, 0), ("O", 0, 3, 0), ("O", 0, 0, 0)], [])))
    out.append(("256Md-Md", M([("Md", 256, 0, 0), ("Md", 0, 0, 0), ("O", 0, 0, 0)] + [("Cl", 0, 0, 0)] * 4,
                              [(0, 2, 1), (1, 2, 1), (0, 3, 1), (0, 4, 1), (1, 5, 1), (1, 6, 1)])))
    out.append(("256Fm+Md", M([("Fm", 256, 0, 0), ("Md", 0, 0, 0)] + [("Cl", 0, 0, 0)] * 6,
                              [(0, 2, 1), (0, 3, 1), (0, 4, 1), (1, 5, 1), (1, 6, 1), (1, 7, 1)])))
    out.append(("C12", M([("C", 0, 0, 0)] * 12, [(i, (i + 1) % 12, 1) for i in range(12)])))
    out.append(("B10H14-like", M([("B", 0, 0, 0)] * 10 + [("H", 0, 0, 0)] * 14,
                                 [(i, i + 1, 1) for i in range(9)] + [(i % 10, 10 + i, 1) for i in range(14)])))
    out.append(("BrNa", M([("Br", 0, 0, 0), ("Na", 0, 0, 0)], [(0, 1, 1)])))
    out.append(("CoCl2", M([("Co", 0, 0, 0), ("Cl", 0, 0, 0), ("Cl", 0, 0, 0)], [(0, 1, 1), (0, 2, 1)])))
    out.append(("HF+HCl", M([("H", 0, 0, 0), ("F", 0, 0, 0), ("H", 0, 0, 0), ("Cl", 0, 0, 0)], [(0, 1, 1), (2, 3, 1)])))
    out.append(("HDO", M([("H", 0, 0, 0), ("H", 2, 0, 0), ("O", 0, 0, 0)], [(0, 2, 1), (1, 2, 1)])))
    out.append(("CDCl3", M([("C", 0, 0, 0), ("H", 2, 0, 0), ("Cl", 0, 0, 0), ("Cl", 0, 0, 0), ("Cl", 0, 0, 0)], [(0, 1, 1), (0, 2, 1), (0, 3, 1), (0, 4, 1)])))
    out.append(("DCl", M([("H", 2, 0, 0), ("Cl", 0, 0, 0)], [(0, 1, 1)])))
    out.append(("TCCH", M([("C", 0, 0, 0), ("C", 0, 0, 0), ("H", 3, 0, 0), ("H", 0, 0, 0)], [(0, 1, 3), (0, 2, 1), (1, 3, 1)])))
    out.append(("Na+36Cl-", M([("Na", 0, 0, 1), ("Cl", 36, 0, -1)], [])))
    out.append(("Na+Cl-", M([("Na", 0, 0, 1), ("Cl", 0, 0, -1)], [])))
    out.append(("3He", M([("He", 3, 0, 0)], [])))
    out.append(("H2O.Clrad", M([("H", 0, 0, 0), ("H", 0, 0, 0), ("O", 0, 0, 0), ("Cl", 0, 2, 0)], [(0, 2, 1), (1, 2, 1)])))
    out.append(("LiOAc", M([("Li", 0, 0, 1), ("C", 0, 0, 0), ("C", 0, 0, 0), ("O", 0, 0, 0), ("O", 0, 0, -1), ("H", 0, 0, 0), ("H", 0, 0, 0), ("H", 0, 0, 0)],
                           [(1, 2, 1), (2, 3, 2), (2, 4, 1), (1, 5, 1), (1, 6, 1), (1, 7, 1)])))
    out.append(("LiOH", M([("Li", 0, 0, 1), ("O", 0, 0, -1), ("H", 0, 0, 0)], [(1, 2, 1)])))
    out.append(("BrEtOH.O", M([("Br", 0, 0, 0), ("C", 0, 0, 0), ("C", 0, 0, 0), ("O", 0, 0, 0), ("O", 0, 0, 0)] + [("H", 0, 0, 0)] * 5,
                              [(0, 1, 1), (1, 2, 1), (2, 3, 1), (1, 5, 1), (1, 6, 1), (2, 7, 1), (2, 8, 1), (3, 9, 1)])))
    out.append(("C16O18O", M([("C", 0, 0, 0), ("O", 16, 0, 0), ("O", 18, 0, 0)], [(0, 1, 2), (0, 2, 2)])))
    out.append(("N2H4-rad", M([("N", 0, 2, 0), ("N", 0, 0, 0)] + [("H", 0, 0, 0)] * 3, [(0, 1, 1), (0, 2, 1), (1, 3, 1), (1, 4, 1)])))
    out.append(("14N15N", M([("N", 14, 0, 0), ("N", 15, 0, 0)], [(0, 1, 3)])))
    # equivalent atoms, one with an isotope label and one with a radical label of the SAME numeric value (a colour is the triple
    # (element, mass, radical), not the bag of its non-default entries)
    out.append(("HD-Hrad-O", M([("H", 2, 0, 0), ("H", 0, 2, 0), ("O", 0, 0, 0)], [(0, 2, 1), (1, 2, 1)])))
    out.append(("T-Htriplet-O", M([("H", 0, 3, 0), ("H", 3, 0, 0), ("O", 0, 0, 0)], [(0, 2, 1), (1, 2, 1)])))
    out.append(("CH4-m1-r1", M([("C", 0, 0, 0), ("H", 0, 1, 0), ("H", 1, 0, 0), ("H", 0, 0, 0), ("H", 0, 0, 0)], [(0, 1, 1), (0, 2, 1), (0, 3, 1), (0, 4, 1)])))
    out.append(("3He-Hetriplet", M([("He", 3, 0, 0), ("He", 0, 3, 0)], [])))
    out.append(("C2H6-m2-r2-m2r2", M([("C", 0, 0, 0), ("C", 0, 0, 0), ("H", 2, 0, 0), ("H", 0, 2, 0), ("H", 2, 2, 0), ("H", 0, 2, 0), ("H", 2, 0, 0), ("H", 0, 0, 0)],
                                    [(0, 1, 1), (0, 2, 1), (0, 3, 1), (0, 4, 1), (1, 5, 1), (1, 6, 1), (1, 7, 1)])))
    # isotope masses beyond 2^53 that differ in their last digit (numbers are integers of any size)
    out.append(("mass2p53", M([("C", 2**53 + 1, 0, 0), ("C", 2**53, 0, 0), ("C", 2**53 + 2, 0, 0), ("O", 0, 0, 0)], [(0, 3, 1), (1, 3, 1), (2, 3, 1)])))
    out.append(("mass1e30", M([("N", 10**30 + 7, 0, 0), ("N", 10**30 + 8, 2, 0)], [(0, 1, 2)])))
    # labels that are integers of another integral type (values taken from an array or a data frame column)
    try:
        import numpy as np
        eth = [("C", 0, 0, 0), ("C", 0, 0, 0), ("O", 0, 0, 0)] + [("H", 0, 0, 0)] * 6
        ethb = [(0, 1, 1), (1, 2, 1), (0, 3, 1), (0, 4, 1), (0, 5, 1), (1, 6, 1), (1, 7, 1), (2, 8, 1)]
        for nm, at, val in (("np-ethanol-1-13C", 0, np.int64(13)), ("np-ethanol-2-13C", 1, np.int64(13)), ("np-ethanol-18O", 2, np.int32(18))):
            atoms = list(eth)
            atoms[at] = (atoms[at][0], val, 0, 0)
            out.append((nm, M(atoms, ethb)))
        out.append(("np-ethanol", M(eth, ethb)))
        out.append(("np-OH-rad", M([("O", 0, np.int64(2), 0), ("H", np.uint8(2), 0, 0)], [(0, 1, 1)])))
        out.append(("np-NH4+Cl-", M([("N", np.int64(15), 0, np.int8(1)), ("Cl", 0, 0, np.int64(-1))] + [("H", 0, 0, 0)] * 4, [(0, 2, 1), (0, 3, 1), (0, 4, 1), (0, 5, 1)])))
    except ImportError:
        pass
    # every element once (symbol table, Hill order, prefix-sharing symbols), bonded in a chain ordered by a fixed shuffle
    order = list(gen.SYMBOLS)
    random.Random(118).shuffle(order)
    out.append(("all118", M([(s, 0, 0, 0) for s in order], [(i, i + 1, 1) for i in range(117)])))
    # more than a hundred atoms (three-digit indices), unsymmetrical
    out.append(("chain105", M([("O", 0, 0, 0)] + [("C", 0, 0, 0)] * 103 + [("N", 15, 0, 0)], [(i, i + 1, 1) for i in range(104)])))
    out.append(("bigmass", M([("U", 65536, 0, 0), ("U", 65535, 0, 0), ("H", 99999, 1, 0)], [(0, 1, 1), (1, 2, 1)])))
    out.append(("hugemass", M([("C", 1000000, 0, 0), ("C", 12345678, 2, 0), ("H", 999999, 0, 0)], [(0, 1, 1), (1, 2, 1)])))
    out.append(("2HCl", M([("H", 0, 0, 0), ("Cl", 0, 0, 0), ("H", 0, 0, 0), ("Cl", 0, 0, 0)], [(0, 1, 1), (2, 3, 1)])))
    out.append(("MeNH2.2HCl", M([("C", 0, 0, 0), ("N", 0, 0, 0)] + [("H", 0, 0, 0)] * 5 + [("H", 0, 0, 0), ("Cl", 0, 0, 0), ("Cl", 0, 0, 0), ("H", 0, 0, 0)],
                                [(0, 1, 1), (0, 2, 1), (0, 3, 1), (0, 4, 1), (1, 5, 1), (1, 6, 1), (7, 8, 1), (9, 10, 1)])))
    out.append(("2CO+2H2", M([("C", 0, 0, 0), ("O", 0, 0, 0), ("O", 0, 0, 0), ("C", 0, 0, 0)] + [("H", 0, 0, 0)] * 4, [(0, 1, 3), (3, 2, 3), (4, 5, 1), (6, 7, 1)])))
    hub = [("Fe", 0, 0, 0)] + [("C", 0, 0, 0)] * 12
    out.append(("hub12", M(hub, [(0, i, 1) for i in range(1, 13)] + [(i, i + 1, 1) for i in range(1, 12)])))
    return out


# ------------------------------------------------------------------ spec -> code: call scripts generated by TLC (spec/Calls.tla)
def tlc_scripts(num, seed, max_objs=9, max_len=12):
    cfg = f"SPECIFICATION CSpec\nCONSTANTS MaxObjs = {max_objs} MaxLen = {max_len}\nINVARIANT ScriptOK\nCONSTRAINT EmitScript\nCHECK_DEADLOCK FALSE\n"
    r = tlc.run("Calls", cfg, workers=1, simulate=f"num={num}", depth=max_len + 2, seed=seed, timeout=600)
    if r.rc != 0:
        raise tlc.MachineryError("Calls simulation failed:\n" + r.error_text(1500))
    seen, out = set(), []
    for p in r.printed:
        if isinstance(p, dict) and "script" in p:
            key = json.dumps(p["script"])
            if key not in seen:
                seen.add(key); out.append(p["script"])
    return out, r


def run_script(sid, script, g, rng):
    """execute one call script on real objects; object 1 of the script is the molecule g"""
    S = Session(sid, note="tlc-script")
    obj = {1: S.input(g)}
    strings = {}
    for name, o, new in script:
        if name in ("canon", "relabel", "nxrelabel", "permute", "edit", "write") and obj.get(o) is None:
            continue
        if name == "canon":
            obj[new] = S.canon(obj[o])
        elif name == "ser":
            if obj.get(o) is None:
                continue
            s = S.ser(obj[o])
            if s is not None:
                strings[new] = (s, obj[o])
        elif name == "parse":
            if o in strings:
                obj[new] = S.parse(strings[o][0], of=strings[o][1])
        elif name in ("relabel", "nxrelabel"):
            live = S.objs[obj[o]]
            n = live.number_of_nodes()
            if sorted(live.nodes) != list(range(n)):
                continue
            p = gen.random_perm(rng, n)
            h = nx.relabel_nodes(live, {a: p[a] for a in live.nodes}, copy=True) if name == "nxrelabel" else relabel(live, p, rng)
            obj[new] = S.derive(obj[o], h, p)
        elif name == "permute":
            obj[new] = S.permute(obj[o], rng.choice([0.0, 0.1, 0.42, 0.7, 0.999]))
        elif name == "edit":
            live = S.objs[obj[o]]
            if live.number_of_nodes() >= 2:
                a, b = rng.sample(list(live.nodes), 2)
                if live.has_edge(a, b):
                    live.remove_edge(a, b)
                else:
                    live.add_edge(a, b, bond_type=1)
                    live.edges[a, b][record.ETAG] = next(record._tagctr)
                S.ev.append({"op": "mutate", "obj": obj[o], "g": record.project(live), "newcls": 800000 + 100 * obj[o] + len(S.ev) % 100})
        elif name == "write":
            lines = S.write(obj[o])
            if lines:
                fl = textgen.floats_from_lines(lines)
                obj[new] = S.read(lines, "V3000", "C09", floats=fl)
    return S


def script_sessions(rng, tier, n_quick=60):
    scripts, r = tlc_scripts(40 if tier == "quick" else 400, rng.randrange(10**6))
    rng.shuffle(scripts)
    scripts = scripts[: (n_quick if tier == "quick" else 1200)]
    pool = [g for _, g in special_molecules()] + [gen.random_molecule(rng, 7) for _ in range(40)]
    return [run_script(f"script{i}", sc, copy.deepcopy(rng.choice(pool)), rng) for i, sc in enumerate(scripts)], r
