"""Seeded generators of molecules (as the library's own graph objects) for the code->spec direction."""
from __future__ import annotations
import glob, itertools, os, random
import networkx as nx
from tucan.graph_utils import graph_from_molecule
from tucan.io import graph_from_file

REPO = os.environ.get("TUCAN_REPO", "/repo")

# typed in by hand (atomic numbers); independent of the repository's table
SYMBOLS = """H He Li Be B C N O F Ne Na Mg Al Si P S Cl Ar K Ca Sc Ti V Cr Mn Fe Co Ni Cu Zn Ga Ge As Se Br Kr
Rb Sr Y Zr Nb Mo Tc Ru Rh Pd Ag Cd In Sn Sb Te I Xe Cs Ba La Ce Pr Nd Pm Sm Eu Gd Tb Dy Ho Er Tm Yb Lu
Hf Ta W Re Os Ir Pt Au Hg Tl Pb Bi Po At Rn Fr Ra Ac Th Pa U Np Pu Am Cm Bk Cf Es Fm Md No Lr Rf Db Sg
Bh Hs Mt Ds Rg Cn Nh Fl Mc Lv Ts Og""".split()
Z = {s: i + 1 for i, s in enumerate(SYMBOLS)}

POOLS = {
    "organic": ["C", "C", "C", "H", "H", "H", "N", "O", "S", "Cl"],
    "prefix": ["C", "Cl", "Cs", "Co", "Cn", "H", "He", "Hf", "Hg", "Ho", "Hs", "N", "Na", "Nb", "Nd", "Ne", "Nh", "Ni", "No", "Np"],
    "noC": ["H", "O", "N", "Na", "B", "Ba", "Be", "Bh", "Bi", "Bk", "Br", "I", "In", "Ir"],
    "one": ["C"],
    "two": ["C", "H"],
    "all": SYMBOLS,
}


def mol(atoms, bonds):
    """atoms: list of (symbol, mass, rad, chg); bonds: list of (i, j, type) -> the library's graph object,
    built the way the readers build it"""
    aa = {}
    for i, (s, m, r, c) in enumerate(atoms):
        d = {"element_symbol": s, "atomic_number": Z[s], "partition": 0,
             "x_coord": float(i) + 0.25, "y_coord": -float(i) * 0.5, "z_coord": 0.125 * i}
        if m:
            d["mass"] = m
        if r:
            d["rad"] = r
        if c:
            d["chg"] = c
        aa[i] = d
    bb = {(i, j): {"bond_type": t} for i, j, t in bonds}
    return graph_from_molecule(aa, bb)


def hash_twins():
    """pairs of molecules with the same numbering and bonds that differ only in values the interpreter HASHES alike (integers modulo
    2**61 - 1): a table keyed by a hash of the molecule's data, without comparing the data, takes one for the other"""
    P = 2**61 - 1
    out = []
    for lo, hi in [(0, P), (1, P + 1), (4, 2**63), (8, 2**64), (2, 2 + 3 * P), (13, 13 + P)]:
        for sym, n, bonds in (("H", 2, [(0, 1, 1)]), ("C", 3, [(0, 1, 1), (1, 2, 1)]), ("O", 4, [(0, 1, 1), (1, 2, 1), (2, 3, 1), (3, 0, 1)])):
            a = mol([(sym, lo, 0, 0)] + [(sym, 0, 0, 0)] * (n - 1), bonds)
            b = mol([(sym, hi, 0, 0)] + [(sym, 0, 0, 0)] * (n - 1), bonds)
            out.append((f"twin-{sym}-{lo}", a, b))
    return out


def corpus(max_atoms=None):
    out = []
    for f in sorted(glob.glob(os.path.join(REPO, "tests/molfiles/*/*.mol"))):
        try:
            g = graph_from_file(f)
        except Exception:
            continue
        if max_atoms is None or g.number_of_nodes() <= max_atoms:
            out.append((os.path.basename(f)[:-4], g))
    return out


def random_molecule(rng, nmax=9, pool=None, label_p=0.25, density=None):
    n = rng.randint(1, nmax)
    pool = POOLS[pool or rng.choice(["organic", "organic", "prefix", "noC", "one", "two", "all"])]
    atoms = []
    for _ in range(n):
        s = rng.choice(pool)
        m = rng.choice([1, 2, 3, 13, 14, 15, 18, 235]) if rng.random() < label_p else 0
        r = rng.choice([1, 2, 3]) if rng.random() < label_p / 2 else 0
        c = rng.choice([-2, -1, 1, 2]) if rng.random() < 0.15 else 0
        atoms.append((s, m, r, c))
    p = density if density is not None else rng.choice([0.15, 0.3, 0.5, 0.8, 1.0])
    bonds = [(i, j, rng.choice([1, 1, 2, 3])) for i, j in itertools.combinations(range(n), 2) if rng.random() < p]
    return mol(atoms, bonds)


def _skeleton(edges, n, sym="C", labels=None):
    atoms = [(sym, 0, 0, 0)] * n
    atoms = list(atoms)
    for i, (m, r) in (labels or {}).items():
        atoms[i] = (atoms[i][0], m, r, 0)
    return mol(atoms, [(a, b, 1) for a, b in edges])


def symmetric_families(rng):
    """highly symmetric skeletons, some with isotope / radical labels on a subset of an orbit"""
    out = []
    def add(name, G, sym="C"):
        G = nx.convert_node_labels_to_integers(G)
        n = G.number_of_nodes()
        e = list(G.edges)
        out.append((name, _skeleton(e, n, sym)))
        for k in (1, 2):
            if n >= k + 1:
                lab = {a: (rng.choice([2, 13]), 0) for a in rng.sample(range(n), k)}
                out.append((f"{name}+{k}iso", _skeleton(e, n, sym, lab)))
        lab = {rng.randrange(n): (0, 2)}
        out.append((f"{name}+rad", _skeleton(e, n, sym, lab)))
        if n <= 24:
            # one hydrogen on every skeleton atom (cubane, prismane, benzene ...): two classes, full symmetry kept
            atoms = [(sym, 0, 0, 0)] * n + [("H", 0, 0, 0)] * n
            bonds = [(a, b, 1) for a, b in e] + [(a, n + a, 1) for a in range(n)]
            out.append((f"{name}H{n}", mol(atoms, bonds)))
            k = rng.randrange(n)
            atoms2 = list(atoms); atoms2[n + k] = ("H", 2, 0, 0)
            out.append((f"{name}H{n}-D", mol(atoms2, bonds)))
            atoms3 = list(atoms); atoms3[k] = ("N", 0, 0, 0)
            out.append((f"{name}H{n}-aza", mol(atoms3, bonds)))
    for n in (3, 4, 5, 6, 8):
        add(f"cycle{n}", nx.cycle_graph(n))
    add("K4", nx.complete_graph(4)); add("K5", nx.complete_graph(5))
    add("K33", nx.complete_bipartite_graph(3, 3)); add("K24", nx.complete_bipartite_graph(2, 4))
    add("cube", nx.hypercube_graph(3)); add("petersen", nx.petersen_graph())
    add("prism3", nx.circular_ladder_graph(3)); add("prism5", nx.circular_ladder_graph(5))
    add("star5", nx.star_graph(5)); add("path6", nx.path_graph(6))
    add("2xC3", nx.disjoint_union(nx.cycle_graph(3), nx.cycle_graph(3)))
    add("C3+C4", nx.disjoint_union(nx.cycle_graph(3), nx.cycle_graph(4)))
    add("3xK2", nx.disjoint_union_all([nx.complete_graph(2)] * 3))
    add("isolated4", nx.empty_graph(4))
    add("shrikhande", _shrikhande()); add("rook4x4", nx.cartesian_product(nx.complete_graph(4), nx.complete_graph(4)))
    add("dodecahedron", nx.dodecahedral_graph())
    for nm, base in (("cube", nx.hypercube_graph(3)), ("prism3", nx.circular_ladder_graph(3)), ("cycle6", nx.cycle_graph(6)),
                     ("K4", nx.complete_graph(4)), ("bicyclo222", nx.Graph([(0, 1), (1, 2), (2, 3), (0, 4), (4, 5), (5, 3), (0, 6), (6, 7), (7, 3)]))):
        B = nx.convert_node_labels_to_integers(base)
        mu = B.number_of_edges() - B.number_of_nodes() + 1
        nb = B.number_of_nodes()
        atoms = [("C", 0, 0, 0)] * nb + [("Cl", 0, 0, 0)] * mu
        out.append((f"{nm}+{mu}Cl", mol(atoms, [(a, b, 1) for a, b in B.edges])))
        atoms2 = [("N" if i in (0, 3) else "C", 0, 0, 0) for i in range(nb)] + [("Cl", 0, 0, 0)] * (mu - 1) + [("H", 0, 0, 0), ("Cl", 0, 0, 0)]
        out.append((f"{nm}-aza+{mu}frag", mol(atoms2, [(a, b, 1) for a, b in B.edges] + [(nb + mu - 1, nb + mu, 1)])))
    # fragments that partition refinement cannot tell apart although they are different molecules, next to a third species of equal size
    decalin = [(0, 1), (1, 2), (2, 3), (3, 4), (4, 5), (5, 0), (0, 6), (6, 7), (7, 8), (8, 9), (9, 5)]
    bicyclopentyl = [(0, 1), (1, 2), (2, 3), (3, 4), (4, 0), (0, 5), (5, 6), (6, 7), (7, 8), (8, 9), (9, 5)]
    cyclodecane = [(i, (i + 1) % 10) for i in range(10)]
    def multi(name, frags):
        frs = list(frags)
        rng.shuffle(frs)
        atoms, bonds, off = [], [], 0
        for e in frs:
            k = max(max(x) for x in e) + 1
            atoms += [("C", 0, 0, 0)] * k
            bonds += [(a + off, b + off, 1) for a, b in e]
            off += k
        out.append((name, mol(atoms, bonds)))
    multi("twins-decalin", [decalin, cyclodecane, bicyclopentyl])
    multi("twins-decalin2", [decalin, bicyclopentyl, cyclodecane, decalin])
    ring = lambda k: [(i, (i + 1) % k) for i in range(k)]
    multi("twins-rings-3-4-7", [ring(3) + [(a + 3, b + 3) for a, b in ring(4)], ring(7), ring(7)])
    multi("twins-rings-6-6-12", [ring(12), ring(6) + [(a + 6, b + 6) for a, b in ring(6)], ring(4) + [(a + 4, b + 4) for a, b in ring(8)]])
    # sandwich: two rings bound to one centre (ferrocene-like)
    fer = nx.Graph()
    fer.add_edges_from([(i, (i + 1) % 5) for i in range(5)] + [(5 + i, 5 + (i + 1) % 5) for i in range(5)] + [(i, 10) for i in range(10)])
    G = nx.convert_node_labels_to_integers(fer)
    atoms = [("C", 0, 0, 0)] * 10 + [("Fe", 0, 0, 0)] + [("H", 0, 0, 0)] * 10
    out.append(("ferrocene", mol(atoms, [(a, b, 1) for a, b in G.edges] + [(i, 11 + i, 1) for i in range(10)])))
    return out


def hub_pairs(rng, n_pairs):
    """two pentavalent centres whose substituents are the same three kinds in different multiplicities (same set, often the same
    sum of class numbers): only the multiset of neighbour classes tells them apart"""
    comps = [(a, b, 5 - a - b) for a in range(6) for b in range(6 - a)]
    pairs = [(x, y) for i, x in enumerate(comps) for y in comps[i + 1:] if all(x) and all(y) or rng.random() < 0.15]
    rng.shuffle(pairs)
    out = []
    for x, y in pairs[:n_pairs]:
        atoms, bonds = [], []
        for comp in (x, y):
            hub = len(atoms)
            atoms.append(("P", 0, 0, 0))
            for sym, k in zip(("F", "Cl", "Br"), comp):
                for _ in range(k):
                    o = len(atoms)
                    atoms.append(("O", 0, 0, 0)); bonds.append((hub, o, 1))
                    atoms.append((sym, 0, 0, 0)); bonds.append((o, o + 1, 1))
        if rng.random() < 0.3:
            bonds.append((0, [i for i, a in enumerate(atoms) if a[0] == "P"][1], 1))
        out.append((f"hubs-{''.join(map(str, x))}-{''.join(map(str, y))}", mol(atoms, bonds)))
    return out


def multi_labelled(rng, n_mol):
    """chains / trees of 20-60 atoms with several isotope or radical labels at scattered positions"""
    out = []
    for i in range(n_mol):
        n = rng.randint(20, 60)
        atoms = [(rng.choice(["C", "C", "C", "N", "O"]), 0, 0, 0) for _ in range(n)]
        bonds = [(rng.randint(max(0, j - 3), j - 1), j, 1) for j in range(1, n)]
        for a in rng.sample(range(n), rng.randint(3, 8)):
            s = atoms[a][0]
            atoms[a] = (s, rng.choice([13, 14, 15, 18, 0]), rng.choice([0, 0, 2]), 0) if rng.random() < 0.8 else (s, 0, 2, 0)
        out.append((f"labelled{i}", mol(atoms, bonds)))
    return out


def two_label_alkanes(rng, n_mol, k=10):
    """n-alkanes with all hydrogens and exactly two 13C labels at chosen chain positions (few labelled atoms, many index pairs)"""
    out = []
    pairs = [(i, j) for i in range(k) for j in range(i + 1, k)]
    rng.shuffle(pairs)
    for i, j in pairs[:n_mol]:
        atoms = [("C", 13 if a in (i, j) else 0, 0, 0) for a in range(k)]
        bonds = [(a, a + 1, 1) for a in range(k - 1)]
        for a in range(k):
            for _ in range(3 if a in (0, k - 1) else 2):
                atoms.append(("H", 0, 0, 0)); bonds.append((a, len(atoms) - 1, 1))
        out.append((f"alkane{k}-13C-{i}-{j}", mol(atoms, bonds)))
        # the second label on a hydrogen instead (two elements: their numbers lie far apart)
        atoms2 = [(s, (0 if a == j else m), r, c) for a, (s, m, r, c) in enumerate(atoms)]
        hs = [b for (a, b, _) in bonds if a == j and b >= k] + [a for (a, b, _) in bonds if b == j and a >= k]
        if hs:
            h = rng.choice(hs)
            atoms2[h] = ("H", 2, 0, 0)
            out.append((f"alkane{k}-13C-{i}-D-{j}", mol(atoms2, bonds)))
    return out


def arms_hubs(narms=256):
    """two equal centres, bonded to each other, one with `narms` C-F arms, the other with `narms` C-Cl arms"""
    atoms, bonds = [("Zr", 0, 0, 0), ("Zr", 0, 0, 0)], [(0, 1, 1)]
    for hub, hal in ((0, "F"), (1, "Cl")):
        for _ in range(narms):
            c = len(atoms)
            atoms += [("C", 0, 0, 0), (hal, 0, 0, 0)]
            bonds += [(hub, c, 1), (c, c + 1, 1)]
    return mol(atoms, bonds)


def solvent_box(rng, n_waters=110):
    """more than a hundred fragments, among them refinement-equivalent but different ones"""
    bicyclopropyl = [(0, 1), (1, 2), (2, 0), (0, 3), (3, 4), (4, 5), (5, 3)]
    bicyclo220 = [(0, 1), (1, 2), (2, 3), (3, 0), (2, 4), (4, 5), (5, 3)]
    atoms, bonds = [], []
    frs = [bicyclopropyl, bicyclo220]
    rng.shuffle(frs)
    for e in frs:
        off = len(atoms)
        atoms += [("C", 0, 0, 0)] * 6
        bonds += [(a + off, b + off, 1) for a, b in e]
    for _ in range(n_waters):
        off = len(atoms)
        atoms += [("O", 0, 0, 0), ("H", 0, 0, 0), ("H", 0, 0, 0)]
        bonds += [(off, off + 1, 1), (off, off + 2, 1)]
    return mol(atoms, bonds)


def fragment_order_perms(g, rng, limit=4):
    """renumberings (label a -> perm[a]) that list the connected components of g in other orders, each component en bloc (atoms
    inside a component shuffled): whatever a pipeline does fragment by fragment must not depend on where a fragment stands"""
    comps = [sorted(c) for c in nx.connected_components(g)]
    if not 2 <= len(comps) <= 2000:
        return []
    orders = []
    if len(comps) <= 4:
        orders = [list(o) for o in itertools.permutations(range(len(comps)))][1:]
        rng.shuffle(orders)
    else:
        orders = [list(range(len(comps)))[::-1]] + [rng.sample(range(len(comps)), len(comps)) for _ in range(limit)]     # the reverse order first: every pair swapped
    out = []
    for o in orders[:limit]:
        perm, nxt = {}, 0
        for ci in o:
            atoms = list(comps[ci])
            rng.shuffle(atoms)
            for a in atoms:
                perm[a] = nxt
                nxt += 1
        out.append([perm[a] for a in range(g.number_of_nodes())])
    return out


def _shrikhande():
    G = nx.Graph()
    for i in range(4):
        for j in range(4):
            for di, dj in ((1, 0), (0, 1), (1, 1)):
                G.add_edge((i, j), ((i + di) % 4, (j + dj) % 4))
    return G


def random_perm(rng, n):
    p = list(range(n))
    rng.shuffle(p)
    return p


def cfi_graphs(max_atoms):
    """the CFI benchmark graphs shipped with the repository (non-isomorphic twins that defeat colour refinement), as carbon skeletons"""
    out = []
    for f in sorted(glob.glob(os.path.join(REPO, "tests/cfi_rigid_benchmark_graphs/*.col"))):
        lines = [l.split() for l in open(f).read().splitlines()]
        head = [l for l in lines if l and l[0] == "p"]
        if not head or int(head[0][2]) > max_atoms:
            continue
        n = int(head[0][2])
        edges = [(int(l[1]) - 1, int(l[2]) - 1, 1) for l in lines if l and l[0] == "e"]
        out.append((os.path.basename(f)[:-4], mol([("C", 0, 0, 0)] * n, edges)))
    return out
