"""Projection of implementation objects (networkx graphs) to the JSON records the TLA+ specification
reads (spec/Tucan.tla: MkGraph).  One projection, used by every recorder and replayer.

Graph record (atoms listed by rank of their integer label -- for labels 0..n-1 rank = label; TLA+ atom id = rank + 1;
`labs` = the sorted labels themselves, so that "same label set" and "numbered 0..n-1" can be stated):
  n, atoms[i] = {z, sym, m, r, hm, hr, c, p, tag, attr, mattr}, adj[i] = sorted neighbour labels,
  order = labels in node-iteration order, edges = [[a, b, rendering of the bond's attributes]] (a < b)
    m / r / c : mass / radical / charge with absent = 0;  hm / hr / hc : key present
    p         : partition (absent = -1)
    tag       : value of the driver's TAG attribute (absent = 0)
    attr      : canonical rendering of ALL node attributes except partition
    attrx     : ... except partition, invariant code and the driver's tag;  ic : the invariant code as [Z, mass, rad] or []
    mattr     : canonical rendering of the chemically meaningful attributes only
A graph whose labels are not integers has no record: `project` returns {"bad": reason}.
"""
from __future__ import annotations
import json, numbers

TAG = "_vtag"          # unique per-atom tag attached by the drivers
ETAG = "_vetag"        # unique per-bond tag
MEANINGFUL = ("element_symbol", "atomic_number", "chg", "mass", "rad", "x_coord", "y_coord", "z_coord",
              "invariant_code")


def _r(v):
    """canonical rendering of one attribute value"""
    if isinstance(v, float):
        return "f:" + repr(v)
    if isinstance(v, bool):
        return "b:" + repr(v)
    if isinstance(v, numbers.Integral):
        return "i:" + repr(int(v))
    if isinstance(v, str):
        return "s:" + v
    if isinstance(v, (tuple, list)):
        return ("t:" if isinstance(v, tuple) else "l:") + "(" + ",".join(_r(x) for x in v) + ")"
    return "o:" + repr(v)


def render_attrs(d, skip=(), only=None):
    keys = sorted(k for k in d if k not in skip and (only is None or k in only))
    return ";".join(f"{k}={_r(d[k])}" for k in keys)


SATURATE = 10**8


def fingerprint(v):
    """integers travel as JSON numbers only when they fit TLC's 32-bit integers: values below 10^8 travel as they are,
    larger ones as 10^8 + (their last nine digits) -- the specification reads numerals the same way (spec/Grammar.tla:
    NumVal, spec/MolV3000.tla: NatF), so that two large numbers that differ in their low digits stay different"""
    a = abs(v)
    f = a if a < SATURATE else SATURATE + a % 10**9
    return f if v >= 0 else -f


def _small(v, absent=0):
    if v is None:
        return absent
    if isinstance(v, bool) or not isinstance(v, numbers.Integral):
        return None
    return fingerprint(int(v))          # integers of any integral type (numpy's included) are the number they stand for


def _code(v):
    """the invariant code as a list of three numbers ([] when it is absent or something else)"""
    if isinstance(v, (tuple, list)) and len(v) == 3 and all(isinstance(x, numbers.Integral) and not isinstance(x, bool) for x in v):
        return [fingerprint(int(x)) for x in v]
    return []


def project(g, keep_scratch=True):
    nodes = list(g.nodes)
    n = len(nodes)
    if any(type(x) is not int for x in nodes):
        return {"bad": "labels are not integers: %r" % (nodes[:12],)}
    labs = sorted(nodes)
    rank = {lab: i for i, lab in enumerate(labs)}          # atoms are listed by rank of their label (labels 0..n-1: rank = label)
    atoms = []
    for lab in labs:
        d = g.nodes[lab]
        z, m, r, c, p = (_small(d.get("atomic_number")), _small(d.get("mass")), _small(d.get("rad")),
                         _small(d.get("chg")), _small(d.get("partition"), -1))
        if None in (z, m, r, c, p) or not isinstance(d.get("element_symbol"), str):
            return {"bad": "atom %d has non-integer identity attributes: %r" % (lab, d)}
        xyz = [repr(float(d[k])) if isinstance(d.get(k), (int, float)) and not isinstance(d.get(k), bool) else "" for k in
               ("x_coord", "y_coord", "z_coord")]
        atoms.append({"z": z, "sym": d["element_symbol"], "m": m, "r": r, "c": c, "x": xyz[0], "y": xyz[1], "z_": xyz[2],
                      "hm": "mass" in d, "hr": "rad" in d, "hc": "chg" in d, "p": p,
                      "tag": _small(d.get(TAG)) or 0,
                      "attr": render_attrs(d, skip=("partition",)),
                      "attrx": render_attrs(d, skip=("partition", "invariant_code", TAG)),
                      "ic": _code(d.get("invariant_code")),
                      "mattr": render_attrs(d, only=MEANINGFUL)})
    edges = []
    for a, b, d in g.edges(data=True):
        if a == b:
            return {"bad": "self loop at %r" % a}
        lo, hi = (rank[a], rank[b]) if rank[a] < rank[b] else (rank[b], rank[a])
        bt = d.get("bond_type")
        edges.append([lo, hi, render_attrs(d), bt if isinstance(bt, int) and not isinstance(bt, bool) and abs(bt) < 2**30 else -1])
    edges.sort()
    adj = [sorted(rank[x] for x in g.neighbors(lab)) for lab in labs]
    return {"n": n, "atoms": atoms, "adj": adj, "order": [rank[x] for x in nodes], "edges": edges, "labs": [fingerprint(x) for x in labs]}


def dense(rec):
    """the record of a graph whose labels are exactly 0..n-1"""
    return "bad" not in rec and rec["labs"] == list(range(rec["n"]))


def identity_key(rec):
    """hashable summary used by drivers to de-duplicate cases (not a decision procedure)"""
    return json.dumps([[a["z"], a["m"], a["r"]] for a in rec["atoms"]]) + json.dumps(rec["adj"])
