"""Seeded generators of molfile texts for an abstract molecule (code -> spec direction): the spelling freedom of
V3000 and V2000 that the properties list.  The texts are judged by the specification's decoders, so nothing here
is an oracle; the abstract molecule travels along only so that the decoder itself is cross-checked."""
from __future__ import annotations
import random, itertools
import gen

ATOM_EXTRAS = ["CFG=1", "VAL=2", "HCOUNT=1", "STBOX=1", "INVRET=1", "EXACHG=1", "SUBST=2", "UNSAT=1", "RBCNT=2", "ATTCHPT=1",
               "CLASS=AA", "SEQID=3", "RGROUPS=(1 2)", "ATTCHORD=(4 1 Al 2 Br)"]
BOND_EXTRAS = ["CFG=1", "TOPO=1", "RXCTR=4", "STBOX=1", "DISP=COORD"]
BOND_TYPES = [1, 1, 1, 2, 2, 3, 4, 5, 6, 7, 8, 9, 10]      # every bond type of the CTfile format: each is a bonded pair
BIGMASS = [256, 99999, 123456789, 2**31 + 1, 2**53 + 1, 2**53 + 2, 2**63 + 12345, 10**30 + 7]
UNICODE_HEADERS = ["O-H 0.97 \u00c5", "\u0105\u0445\u03c5 (UTF-8)", "caf\u00e9 \u2013 \u00b5mol"]   # file API only (graph_from_file decodes)
COORDS = ["0", "0.0", "1.25", "-2", "3.", "-0.0001", "1e3", "12.5000", "-7.125", "100.5", "0.000001", "-12345.678"]


def abstract_molecule(rng, nmax=7, pool=None, coords=COORDS, bigmass=False, samecoords_p=0.12):
    n = rng.randint(1, nmax)
    pool = pool or rng.choice([["C", "H", "O", "N"], ["C", "H", "H", "H", "O"], ["H", "Cl", "Cs", "C", "Co"], gen.SYMBOLS])
    atoms = []
    for _ in range(n):
        s = rng.choice(pool)
        atoms.append({"sym": s, "chg": rng.choice([0, 0, 0, 1, -1, 2, -3, 3]), "rad": rng.choice([0, 0, 0, 2, 1, 3]),
                      "mass": (rng.choice([0, 0, 2, 3, 13, 14, 17, rng.choice(BIGMASS) if bigmass else 35]) if s != "H" else rng.choice([0, 0, 2, 3, 1])),
                      "x": rng.choice(coords), "y": rng.choice(coords), "z": rng.choice(coords)})
    bonds = [(p, q, rng.choice(BOND_TYPES)) for p, q in itertools.combinations(range(n), 2) if rng.random() < rng.choice([0.2, 0.5])]
    if rng.random() < samecoords_p:
        # a file written without coordinates: every atom at the origin, so that atoms of one element have identical lines
        for a in atoms:
            a["x"], a["y"], a["z"] = (coords[0],) * 3
    return {"atoms": atoms, "bonds": bonds}


def from_graph(g):
    """abstract molecule of a library graph (labels 0..n-1, listed in label order)"""
    atoms = []
    for a in range(g.number_of_nodes()):
        d = g.nodes[a]
        atoms.append({"sym": d["element_symbol"], "chg": d.get("chg", 0), "rad": d.get("rad", 0), "mass": d.get("mass", 0),
                      "x": repr(float(d.get("x_coord", 0))), "y": repr(float(d.get("y_coord", 0))), "z": repr(float(d.get("z_coord", 0)))})
    bonds = [(min(a, b), max(a, b), d.get("bond_type", 1)) for a, b, d in g.edges(data=True)]
    return {"atoms": atoms, "bonds": sorted(bonds)}


def mol_event(M):
    from project import fingerprint
    return {"atoms": [dict(a, mass=fingerprint(a["mass"])) for a in M["atoms"]], "bonds": [[p, q, t] for p, q, t in sorted(M["bonds"])]}


def floats_of(M, extra=()):
    fl = {"": "0.0"}
    for a in M["atoms"]:
        for k in "xyz":
            if a[k] != "":
                fl[a[k]] = repr(float(a[k]))
    for t in extra:
        try:
            fl[t] = repr(float(t))
        except ValueError:
            pass
    return fl


def _join(toks, rng, wide):
    out = toks[0]
    for t in toks[1:]:
        out += " " * (rng.choice([1, 1, 2, 3, 5]) if wide else 1) + t
    return out


def render_v3000(M, rng, perm=None, opts=None):
    """perm: atom k of M is written as the perm[k]-th atom line (default identity) -> the reader numbers it perm[k].
    Returns (lines, info)."""
    o = {"wide": rng.random() < 0.4, "defaults": rng.random() < 0.3, "dt": rng.random() < 0.5, "extras": rng.random() < 0.4,
         "star": rng.random() < 0.3, "cont": rng.choice([0, 0, 1, 2, 4]), "trail": rng.random() < 0.3, "tailblank": rng.random() < 0.2,
         "indices": rng.choice(["identity", "shuffled", "gappy", "big"]), "header": rng.random() < 0.5}
    o.update(opts or {})
    n = len(M["atoms"])
    perm = list(perm) if perm is not None else list(range(n))
    order = sorted(range(n), key=lambda k: perm[k])               # atom of M written at each file position
    if o["indices"] == "identity":
        idx_at_pos = list(range(1, n + 1))
    elif o["indices"] == "shuffled":
        idx_at_pos = list(range(1, n + 1)); rng.shuffle(idx_at_pos)
    elif o["indices"] == "gappy":
        idx_at_pos = rng.sample(range(1, 5 * n + 20), n)
    else:
        idx_at_pos = rng.sample(range(900, 99999), n)
    idx = {order[p]: idx_at_pos[p] for p in range(n)}              # atom of M -> written index
    used = set(idx_at_pos)
    body = []
    alines = []
    for k in order:
        a = M["atoms"][k]
        sym = a["sym"]
        props = []
        dt = o["dt"] and sym == "H" and a["mass"] in (2, 3)
        if dt:
            sym = "D" if a["mass"] == 2 else "T"
        for key, v in (("CHG", a["chg"]), ("RAD", a["rad"]), ("MASS", a["mass"])):
            if key == "MASS" and dt:
                if o["defaults"] and rng.random() < 0.5:
                    props.append("MASS=0")        # the default written out next to a D / T symbol: still deuterium / tritium
                continue
            if v:
                props.append(f"{key}={v}")
            elif o["defaults"] and rng.random() < 0.7:
                props.append(f"{key}=0")
        if o["extras"]:
            for _ in range(rng.choice([0, 1, 1, 2])):
                props.append(rng.choice(ATOM_EXTRAS))
        rng.shuffle(props)
        alines.append(_join([str(idx[k]), sym, a["x"], a["y"], a["z"], "0"] + props, rng, o["wide"]))
    # star atoms: groups of bonds sharing an endpoint and a type
    bonds = list(M["bonds"])
    rng.shuffle(bonds)
    star_lines, star_bonds = [], []
    if o["star"] and bonds:
        for _ in range(rng.choice([1, 1, 2])):
            if not bonds:
                break
            p, q, t = bonds[0]
            centre = rng.choice([p, q])
            grp = [b for b in bonds if centre in b[:2] and b[2] == t]
            grp = grp[:rng.randint(1, len(grp))]
            bonds = [b for b in bonds if b not in grp]
            if star_bonds and rng.random() < 0.4:
                si = int(star_bonds[-1][1][0] if star_bonds[-1][1][1] == str(idx[star_bonds[-1][3]]) else star_bonds[-1][1][1])   # one star atom shared by two bond lines
            else:
                si = max(used) + rng.randint(1, 9)
                used.add(si)
                star_lines.append(_join([str(si), "*", "0", "0", "0", "0"], rng, o["wide"]))
            others = [b[1] if b[0] == centre else b[0] for b in grp]
            ends = [str(si), str(idx[centre])]
            if rng.random() < 0.5:
                ends.reverse()
            star_bonds.append((t, ends, others, centre))
    if o["star"] and rng.random() < 0.15:
        # a star atom that no bond line refers to
        si = max(used) + rng.randint(1, 9)
        used.add(si)
        star_lines.append(_join([str(si), "*", "0", "0", "0", "0"], rng, o["wide"]))
    # star atom lines may sit anywhere in the atom block
    for sl in star_lines:
        alines.insert(rng.randint(0, len(alines)), sl)
    blines = []
    entries = [("b", b) for b in bonds] + [("s", sb) for sb in star_bonds]
    rng.shuffle(entries)
    for j, (kind, b) in enumerate(entries, 1):
        if kind == "b":
            p, q, t = b
            e = [str(idx[p]), str(idx[q])]
            if rng.random() < 0.5:
                e.reverse()
            ex = [rng.choice(BOND_EXTRAS)] if o["extras"] and rng.random() < 0.4 else []
            blines.append(_join([str(j), str(t)] + e + ex, rng, o["wide"]))
        else:
            t, ends, others, _centre = b
            ep = "ENDPTS=(" + _join([str(len(others))] + [str(idx[x]) for x in others], rng, o["wide"]) + ")"       # runs of blanks between the entries too
            tail = [ep, "ATTACH=" + rng.choice(["ALL", "ANY"])]
            if rng.random() < 0.5:
                tail.reverse()
            blines.append(_join([str(j), str(t)] + ends, rng, o["wide"]) + " " + " ".join(tail))
    body.append("BEGIN CTAB")
    body.append(_join(["COUNTS", str(len(alines)), str(len(blines)), "1" if o["trail"] else "0", "0", rng.choice(["0", "0", "1"])]
                      + (["REGNO=12345"] if rng.random() < 0.2 else []), rng, o["wide"]))
    body.append("BEGIN ATOM"); body += alines; body.append("END ATOM")
    if blines or rng.random() < 0.2:
        body.append("BEGIN BOND"); body += blines; body.append("END BOND")
    if o["trail"]:
        body += ["BEGIN SGROUP", f"1 DAT 0 ATOMS=(1 {idx_at_pos[0]}) FIELDNAME=CHG FIELDDATA=" + rng.choice(["MASS=7", "5'-end", '"two words"', "C:\\", "C5'", '"RAD=3 CHG=1"']),
                 f"2 SUP 0 ATOMS=(1 {idx_at_pos[0]}) LABEL=" + rng.choice(["Me", "C5'", '"t Bu"']), "END SGROUP",
                 "BEGIN COLLECTION", f"MDLV30/STEABS ATOMS=(1 {idx_at_pos[0]})", "END COLLECTION"]
    body.append("END CTAB")
    phys = []
    for content in body:
        parts = [content]
        k = o["cont"] if content[:5] not in ("BEGIN", "END C", "END A", "END B", "END S") or rng.random() < 0.2 else 0
        for _ in range(k if rng.random() < 0.6 else 0):
            last = parts[-1]
            if len(last) < 2:
                break
            # any offset, now and then the very end of the line (the continuation line then carries nothing)
            cut = rng.randint(1, len(last) - 1) if rng.random() < 0.9 else len(last)
            parts[-1:] = [last[:cut] + "-", last[cut:]]
        for i, p in enumerate(parts):
            tb = "  " if (o["tailblank"] and i == len(parts) - 1 and rng.random() < 0.5) else ""
            phys.append("M  V30 " + p + tb)
    head = ["", "  SPEC      0101000000", "", "  0  0  0     0  0            999 V3000" + rng.choice(["", "", "", " ", "   "])]
    if o["header"]:
        head[0] = rng.choice(["water", "a name - with a dash-", "M  END", "   ", "compound 17, exported as V3000", "converted from V2000", "it's 5'-end \\"])
        head[2] = rng.choice(["comment CHG=5 MASS=3", "M  V30 not a block line", "", "checked against V2000", "  0  0  0     0  0            999 V3000"])
    lines = head + phys + ["M  END"]
    if o["trail"]:
        lines += ["> <DATA>", "M  V30 1 C 0 0 0 0 MASS=9", "", "$$$$"]
    return lines, {"perm": perm, "opts": o}


def _i3(v):
    return f"{v:3d}"


CODE = {3: 1, 2: 2, 1: 3, -1: 5, -2: 6, -3: 7}


def block_expressible(a):
    return (a["chg"] == 0 and a["rad"] == 0) or (a["rad"] == 0 and a["chg"] in CODE) or (a["rad"] == 2 and a["chg"] == 0)


def fits_v2000(M):
    return len(M["atoms"]) <= 999 and all(len(a[k]) <= 10 for a in M["atoms"] for k in "xyz") and \
        all(abs(a["chg"]) <= 15 and 0 <= a["mass"] <= 999 for a in M["atoms"])


def render_v2000(M, rng, perm=None, opts=None):
    n = len(M["atoms"])
    perm = list(perm) if perm is not None else list(range(n))
    order = sorted(range(n), key=lambda k: perm[k])
    pos = {k: perm[k] + 1 for k in range(n)}                 # atom of M -> its number in the file
    expressible = all(block_expressible(a) for a in M["atoms"])
    o = {"mode": rng.choice(["block", "lines", "both", "stale"] if expressible else ["lines", "stale"]), "group": rng.randint(1, 8),
         "zeros": rng.random() < 0.25, "dt": rng.random() < 0.5, "isodt": rng.random() < 0.3, "extra": rng.random() < 0.3,
         "lists": rng.random() < 0.2, "trail": rng.random() < 0.25, "order": rng.choice(["cri", "irc", "mixed"]), "mmm": rng.random() < 0.5, "dd": False}
    o.update(opts or {})
    lines = [rng.choice(["", "ethanol V2000", "exported as V3000", "converted from V3000 to V2000", "M  END", "name"]), "  SPEC      0101000000",
             rng.choice(["", "checked V2000", "M  CHG  1   1   1", "comment"])]
    alist = ["  1 F    2   6   7", "  1 T    1   8"] if o["lists"] else []
    # counts line aaabbblllfffcccsssxxxrrrpppiiimmmvvvvvv: chiral flag 0 / 1, obsolete fields anything, no Stext entries
    lines.append(f"{n:3d}{len(M['bonds']):3d}{len(alist):3d}  0{rng.choice([0, 0, 1]):3d}  0{rng.choice([0, 0, 2]):3d}{rng.choice([0, 0, 1]):3d}{rng.choice([0, 0, 3]):3d}{rng.choice([0, 0, 1]):3d}{rng.choice(['999', '999', '999', '  0', '  1', '  2', '   ', ' 12']) if o['mmm'] else '999'} V2000" + rng.choice(["", "", "", " ", "    "]))
    for k in order:
        a = M["atoms"][k]
        sym = a["sym"]
        use_dt = o["dt"] and sym == "H" and a["mass"] in (2, 3)
        if use_dt:
            sym = "D" if a["mass"] == 2 else "T"
        if o["mode"] in ("block", "both"):
            code = 4 if a["rad"] == 2 and a["chg"] == 0 else (CODE.get(a["chg"], 0) if a["rad"] == 0 else 0)
        elif o["mode"] == "stale":
            code = rng.choice([0, 1, 3, 4, 5, 7])
        else:
            code = 0
        # dd, the legacy mass-difference column.  The properties name M  ISO and D / T only, so the renderings of a molecule keep
        # dd = 0; the C05 stress texts (opts dd=True) put other values there: whatever the reader makes of them, the pipeline's
        # string for the graph it returned must be a sentence
        dd = rng.choice([-1, -1, 1, 2, -3, 4]) if o["dd"] and rng.random() < 0.5 else 0
        lines.append(f"{a['x']:>10}{a['y']:>10}{a['z']:>10} {sym:<3}{dd:2d}{code:3d}  0  0  0  0  0  0  0  0  0  0")
    bl = list(M["bonds"]); rng.shuffle(bl)
    for p, q, t in bl:
        e = [pos[p], pos[q]]
        if rng.random() < 0.5:
            e.reverse()
        lines.append(f"{e[0]:3d}{e[1]:3d}{t:3d}  0  0  0  0")
    lines += alist

    def plines(tag, ents):
        ents = list(ents)
        if rng.random() < 0.5:
            rng.shuffle(ents)
        out = []
        while ents:
            g = o["group"] if rng.random() < 0.7 else rng.randint(1, 8)
            chunk, ents = ents[:g], ents[g:]
            out.append(f"M  {tag}{len(chunk):3d}" + "".join(f" {i:3d} {v:3d}" for i, v in chunk))
        return out
    with_lines = o["mode"] in ("lines", "both", "stale")
    chg = [(pos[k], a["chg"]) for k, a in enumerate(M["atoms"]) if a["chg"] or (o["zeros"] and rng.random() < 0.5)]
    rad = [(pos[k], a["rad"]) for k, a in enumerate(M["atoms"]) if a["rad"] or (o["zeros"] and rng.random() < 0.5)]
    iso = [(pos[k], a["mass"]) for k, a in enumerate(M["atoms"])
           if a["mass"] and (not (o["dt"] and a["sym"] == "H" and a["mass"] in (2, 3)) or o["isodt"])]
    if o["zeros"] and iso:
        # a writer that lists every atom next to a real label: the default 0 for the others (also for D / T written by symbol)
        iso += [(pos[k], 0) for k, a in enumerate(M["atoms"]) if (not a["mass"] or (o["dt"] and a["sym"] == "H" and a["mass"] in (2, 3) and not o["isodt"]))
                and rng.random() < 0.6]
    C = plines("CHG", chg) if with_lines else []
    R = plines("RAD", rad) if with_lines else []
    if o["mode"] == "stale" and not C and not R:
        C = [f"M  CHG  1 {1:3d} {0:3d}"]                     # something has to supersede the stale codes
    I = plines("ISO", iso)
    extra = ["M  STY  1   1 SUP", "M  SAL   1  1   1", "M  SMT   1 Me", "A    1", "an alias", "V    1 a value", "G    1  1", "Et",
             "M  ALS   1  2 F C   N   ", "M  RGP  1   1   1"] if o["extra"] else []
    blocks = {"cri": [C, R, extra, I], "irc": [I, extra, R, C], "mixed": None}[o["order"]]
    if blocks is None:
        allp = C + R + I
        rng.shuffle(allp)
        blocks = [allp[:len(allp) // 2], extra, allp[len(allp) // 2:]]
    plist = [l for b in blocks for l in b if l not in extra]
    if extra:
        # unrelated entries anywhere between the property lines (two-line entries stay together)
        units = [["M  STY  1   1 SUP"], ["M  SAL   1  1   1"], ["M  SMT   1 Me"], ["A    1", "an alias"], ["V    1 a value"], ["G    1  1", "Et"],
                 ["M  ALS   1  2 F C   N   "], ["M  RGP  1   1   1"]]
        for u in units:
            k = rng.randint(0, len(plist))
            plist[k:k] = ["\0".join(u)]
        plist = [x for l in plist for x in l.split("\0")]
    lines += plist
    lines.append("M  END")
    if o["trail"]:
        lines += ["> <NOTE>", "M  CHG  1   1   1", "M  RAD  1   1   2", "M  ISO  1   1  15", "", "$$$$", "second", "", "",
                  "  1  0  0  0  0  0  0  0  0  0999 V2000", "    0.0000    0.0000    0.0000 C   0  4  0  0  0  0  0  0  0  0  0  0",
                  "M  RAD  1   1   2", "M  ISO  1   1  14", "M  END", "$$$$"]
    return lines, {"perm": perm, "opts": o}


def reader_stress_texts(rng, tier):
    """texts whose reading feeds C05: explicit zeros, D / T next to ISO entries (also zero-valued ones), both attributes on one
    atom, and spellings a tolerant reader might start to accept (upper-case symbols)"""
    out = []
    n = 90 if tier == "quick" else 900
    for i in range(n):
        M = abstract_molecule(rng, 6, pool=rng.choice([["C", "H", "O", "Cl", "Br", "Na"], ["H", "H", "O", "C"]]), coords=["0", "1.5", "-2.25"])
        if rng.random() < 0.5 and fits_v2000(M):
            lines, info = render_v2000(M, rng, opts=dict({"zeros": True} if rng.random() < 0.5 else {}, dd=rng.random() < 0.6))
            if rng.random() < 0.5:      # zero-valued ISO entries, preferably on D / T atoms
                dts = [k for k, a in enumerate(M["atoms"]) if a["sym"] == "H" and a["mass"] in (2, 3)]
                k = rng.choice(dts) if dts and rng.random() < 0.8 else rng.randrange(len(M["atoms"]))
                lines.insert(lines.index("M  END"), f"M  ISO  1 {info['perm'][k] + 1:3d} {0:3d}")
            if rng.random() < 0.3:      # upper-case two-letter symbols
                lines = [l[:31] + l[31:34].upper() + l[34:] if len(l) > 60 and l[30] == " " and "V2000" not in l else l for l in lines]
        else:
            lines, _ = render_v3000(M, rng, opts={"defaults": True} if rng.random() < 0.5 else None)
            if rng.random() < 0.25:     # values a tolerant reader might start to accept: real-valued masses / charges, signs, exponents
                lines = [l.replace("MASS=13", "MASS=13.00335").replace("MASS=2 ", "MASS=2.0141 ").replace("MASS=14", "MASS=+14").replace("RAD=2", "RAD=2.0") for l in lines]
        out.append((f"t{i}", "\n".join(lines)))
    return out


def floats_from_lines(lines):
    """literal -> repr(float(literal)) for every blank-separated token of a V3000 text (continued lines joined)"""
    fl = {}
    for l in "\n".join(lines).replace("-\nM  V30 ", "").split("\n"):
        for t in l.split():
            if t not in fl:
                try:
                    fl[t] = repr(float(t))
                except ValueError:
                    pass
    return fl
