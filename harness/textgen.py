"""Molfile text generators (filled in with the MolV3000 / MolV2000 work)."""
def reader_stress_texts(rng, tier):
    return []
