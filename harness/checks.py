"""The registered checks, one function per property."""
from __future__ import annotations
import copy, itertools, json, os, random
import networkx as nx
import gen, record, drivers, tlc
from record import Session, relabel
from drivers import pipeline_session, reorder_nodes, perturb_nonidentity

REGISTRY = {}
TRACE_CFG = """SPECIFICATION TSpec
CONSTANTS RLimit = {rl} BFLimit = {bf}
CONSTRAINT Report
CHECK_DEADLOCK FALSE
"""


def check(pid):
    def deco(fn):
        REGISTRY[pid] = fn
        return fn
    return deco


def mc_cfg(maxn, palette, invs=("AllHold", "FixedPoint"), any_labelling=False, adapter="apply"):
    return (f"SPECIFICATION MSpec\nCONSTANTS RLimit = 99 BFLimit = 6 MaxN = {maxn} AnyLabelling = {'TRUE' if any_labelling else 'FALSE'} Adapter = \"{adapter}\"\n  Palette <- {palette}\n"
            + "".join(f"INVARIANT {i}\n" for i in invs) + "CHECK_DEADLOCK FALSE\n")


def design_pipeline(out, tier, downstream=False, palettes_quick=(("PaletteHDCO", 3),), palettes_thorough=(("PaletteHDCO", 3), ("PaletteHCO", 4), ("PaletteC13", 4), ("PaletteCl", 3))):
    """bounded model of the whole pipeline; depth 11 = every action of the session fired"""
    for pal, n in (palettes_quick if tier == "quick" else palettes_thorough):
        out.design("MC_Tucan", mc_cfg(n, pal), expect_depth=11, label=f"MC_Tucan MaxN={n} {pal}", timeout=7200)
    if downstream:
        # whatever labelling bliss returns: every labelled graph the serializer can be handed
        out.design("MC_Tucan", mc_cfg(3, "PaletteHC" if tier == "quick" else "PaletteHDCO", invs=("DownstreamHolds",), any_labelling=True), expect_depth=11,
                   label="MC_Tucan downstream (any labelling) MaxN=3", timeout=7200)


def validate_sessions(out, sessions, prefix, rl=14, bf=6, timeout=3600):
    cases = [s.record() if isinstance(s, Session) else s for s in sessions]
    for c in cases[:3]:
        out.sample({"session": c["id"], "events": [e["op"] for e in c["ev"]][:16],
                    "first_string": next((e.get("ret") for e in c["ev"] if e["op"] == "ser"), None)})
    return out.validate("Trace_Tucan", TRACE_CFG.format(rl=rl, bf=bf), cases, prefix, timeout=timeout)


def enumerated_sessions(out, tier, rng, quick_limit=160, **kw):
    """spec -> code: the inputs TLC enumerates for the bounded model, run through the real library"""
    items, r = drivers.spec_enumerated(3, "PaletteHDCO", limit=None if tier == "thorough" else quick_limit, seed=rng.random())
    out.extra["spec_to_code_inputs"] = len(items)
    ss = [pipeline_session(f"tlc{i}", g, rng, perms=[p], unordered=False, **kw) for i, (g, p) in enumerate(items)]
    if tier == "thorough":
        items4, _ = drivers.spec_enumerated(4, "PaletteHCO", limit=1500, seed=rng.random())
        out.extra["spec_to_code_inputs"] += len(items4)
        ss += [pipeline_session(f"tlc4_{i}", g, rng, perms=[p], unordered=False, **kw) for i, (g, p) in enumerate(items4)]
    return ss


def pool_sessions(rng, tier, k=2, n_random=50, corpus_n=10, corpus_cap=40, nmax=8, specials=True, **kw):
    if tier == "thorough":
        n_random, corpus_n, corpus_cap, nmax = n_random * 8, 233, 70, 11
    pool = drivers.molecule_pool(rng, tier, corpus_cap=corpus_cap, n_random=n_random, nmax=nmax, corpus_n=corpus_n)
    if specials:
        pool += drivers.special_molecules()
    ss = []
    for name, g in pool:
        perms = None
        if sorted(g.nodes) == list(range(g.number_of_nodes())) and g.number_of_nodes() <= 80:
            # mixtures: the fragments listed in other orders, next to the random renumberings
            fo = gen.fragment_order_perms(g, rng, limit=6 if tier == "quick" else 24)       # three fragments: every order
            if fo:
                perms = fo + [gen.random_perm(rng, g.number_of_nodes()) for _ in range(max(1, k - 1))]
        ss.append(pipeline_session(name, g, rng, k=k, perms=perms, plain=len(fo) if perms else 0, **kw))
    return ss


def count_sessions(out, sessions, what):
    for s in sessions:
        rec = s.record() if isinstance(s, Session) else s
        g = next((e["g"] for e in rec["ev"] if e["op"] == "input"), None)
        key = json.dumps([[a["z"], a["m"], a["r"]] for a in g["atoms"]] + g["adj"]) if g else rec["id"]
        out.count((what, key), nontrivial=bool(g) and g["n"] >= 2)


RULE = ("cases = recorded sessions of the real library (one molecule, several descriptions, the calls under test), "
        "each validated event by event by TLC against spec/Tucan.tla; non-trivial = the molecule has >= 2 atoms; "
        "distinct = distinct (colours, adjacency) of the session's first object")


# ---------------------------------------------------------------------------------------------- C01
def control_zip_adapter(out):
    out.design("MC_Tucan", mc_cfg(3, "PaletteHC", adapter="zip_inverse"), must_fail="AllHold", label="control: labelling read in the inverse convention (pinned tree + igraph 1.0)")


@check("C01")
def c01(out, tier, rng):
    design_pipeline(out, tier)
    if tier == "thorough":
        control_zip_adapter(out)
    ss = enumerated_sessions(out, tier, rng, parse_back=False)
    ss += pool_sessions(rng, tier, k=3, feedback=True, parse_back=True)
    ss += molfile_order_sessions(rng, tier)
    ss += hash_twin_sessions(rng, tier)
    box = gen.solvent_box(rng)
    ss.append(pipeline_session("solvent-box", box, rng, perms=gen.fragment_order_perms(box, rng, limit=2 if tier == "quick" else 5) + [gen.random_perm(rng, box.number_of_nodes())],
                               parse_back=False, unordered=True, plain=1))
    count_sessions(out, ss, "c01")
    validate_sessions(out, ss, "C01:")
    out.extra["rule"] = RULE
    out.assumptions += ["relabelled descriptions are produced by the driver and verified by the specification (Derive) before use",
                        "bliss (igraph) is an assumed environment: only the use of its result is checked"]


def molfile_order_sessions(rng, tier, parse_back=False, n_quick=40):
    """the same molecule written as molfiles whose atom lines, indices, bond lines and bond directions are shuffled"""
    import textgen
    ss = []
    for i in range(n_quick if tier == "quick" else 600):
        M = textgen.abstract_molecule(rng, 10 if i % 3 else 14, coords=["0", "1.5", "-2.25", "3.125"])
        if i % 3 == 0:
            for a in M["atoms"]:            # many radical centres on different elements
                if rng.random() < 0.7:
                    a["rad"] = 2
        big = i % 20 == 7
        if big:
            # more than 99 atoms in fixed columns: bond lines whose two three-column atom numbers touch ("  1101", " 99100")
            n_at = rng.randint(101, 118)
            pool = [dict(a, x="0", y="1.5", z="0") for a in M["atoms"]] or [dict(sym="C", chg=0, rad=0, mass=0, x="0", y="0", z="0")]
            M = {"atoms": [dict(rng.choice(pool)) for _ in range(n_at)], "bonds": [(j, j + 1, 1) for j in range(n_at - 1)] + [(j, j + 5, 2) for j in range(0, n_at - 5, 17)]}
            for a in M["atoms"]:
                if a["rad"] not in (0, 2):
                    a["rad"] = 2
        nat = len(M["atoms"])
        S = Session(f"molfile-order-{i}")
        ids, perms, rids = [], [], []
        v2 = (big or rng.random() < 0.4) and textgen.fits_v2000(M) and all(a["rad"] in (0, 2) or True for a in M["atoms"])
        for v in range(3):
            perm = gen.random_perm(rng, nat)
            if v2 and not (big and v == 0):          # the big molecule: one V3000 listing next to two fixed-column ones
                # V2000 listings: many radical / charge / isotope entries spread over several property lines
                lines, _ = textgen.render_v2000(M, rng, perm=perm, opts={"group": rng.choice([1, 2, 3, 8]), "mode": rng.choice(["lines", "stale"])})
                ids.append(S.read(lines, "V2000", "C08", floats=textgen.floats_of(M)))
            else:
                lines, _ = textgen.render_v3000(M, rng, perm=perm, opts={"indices": rng.choice(["shuffled", "gappy", "identity"])})
                ids.append(S.read(lines, "V3000", "C07", floats=textgen.floats_of(M)))
            perms.append(perm); rids.append(S.last_read)
        for x in ids:
            if x:
                c = S.canon(x)
                if c:
                    s = S.ser(c)
                    if s is not None and parse_back:
                        pp = S.parse(s, of=c)
                        if pp:
                            c2 = S.canon(pp)
                            if c2:
                                S.ser(c2)
        inv0 = {perms[0][k]: k for k in range(nat)}
        for j in (1, 2):
            # stated for the texts, whatever the reader made of them (a listing it rejects while it reads another is reported too)
            S.sametext(rids[0], rids[j], [perms[j][inv0[p]] for p in range(nat)], "C01", strict=True)
        ss.append(S)
    return ss


# ---------------------------------------------------------------------------------------------- C02
def group_sessions(items, rng, cap=8):
    """molecules with equal colour multiset and bond count in one session: any shared string is a collision"""
    groups = {}
    for g, _ in items:
        key = (tuple(sorted((d["atomic_number"], d.get("mass", 0), d.get("rad", 0)) for _, d in g.nodes(data=True))), g.number_of_edges())
        groups.setdefault(key, []).append(g)
    ss = []
    for i, (key, gs) in enumerate(sorted(groups.items(), key=lambda kv: repr(kv[0]))):
        rng.shuffle(gs)
        for j in range(0, len(gs), cap):
            S = Session(f"grp{i}_{j}")
            for g in gs[j:j + cap]:
                o = S.input(g)
                c = S.canon(o)
                if c:
                    S.ser(c)
            ss.append(S)
    return ss


def two_switch(g, rng):
    """a degree-preserving edge switch: same formula, same degree sequence, usually another molecule"""
    es = list(g.edges)
    if len(es) < 2:
        return None
    for _ in range(20):
        (a, b), (c, d) = rng.sample(es, 2)
        if len({a, b, c, d}) == 4 and not g.has_edge(a, c) and not g.has_edge(b, d):
            h = copy.deepcopy(g)
            da, dc = h.edges[a, b], h.edges[c, d]
            h.remove_edge(a, b); h.remove_edge(c, d)
            h.add_edge(a, c, **da); h.add_edge(b, d, **dc)
            return h
    return None


def move_label(g, rng):
    """the isotope / radical label moved to another atom of the same element"""
    lab = [a for a, d in g.nodes(data=True) if "mass" in d or "rad" in d]
    if not lab:
        return None
    a = rng.choice(lab)
    cand = [b for b, d in g.nodes(data=True) if b != a and d["element_symbol"] == g.nodes[a]["element_symbol"]
            and "mass" not in d and "rad" not in d]
    if not cand:
        return None
    b = rng.choice(cand)
    h = copy.deepcopy(g)
    for k in ("mass", "rad"):
        if k in h.nodes[a]:
            h.nodes[b][k] = h.nodes[a].pop(k)
    for x in (a, b):
        d = h.nodes[x]
        d["invariant_code"] = (d["atomic_number"], d.get("mass", 0), d.get("rad", 0))
    return h


def drop_label(g, rng):
    lab = [a for a, d in g.nodes(data=True) if "mass" in d or "rad" in d]
    if not lab:
        return None
    h = copy.deepcopy(g)
    a = rng.choice(lab)
    k = rng.choice([k for k in ("mass", "rad") if k in h.nodes[a]])
    del h.nodes[a][k]
    d = h.nodes[a]
    d["invariant_code"] = (d["atomic_number"], d.get("mass", 0), d.get("rad", 0))
    return h


def from_dicts_variant(g, rng):
    """an isotopologue / radical variant built the way a user derives one molecule from another: copy the atom dictionaries
    (including whatever derived entries they carry), change a label, hand them to graph_from_molecule"""
    from tucan.graph_utils import graph_from_molecule
    atoms = {a: copy.deepcopy(dict(d)) for a, d in g.nodes(data=True)}
    for d in atoms.values():
        d.pop(record.TAG, None)
    a = rng.choice(list(atoms))
    if rng.random() < 0.5:
        atoms[a]["mass"] = atoms[a].get("mass", 0) + rng.choice([1, 2, 13])
    else:
        atoms[a]["rad"] = rng.choice([1, 2, 3]) if not atoms[a].get("rad") else atoms[a]["rad"] % 3 + 1
    bonds = {(x, y): {k: v for k, v in d.items() if k != record.ETAG} for x, y, d in g.edges(data=True)}
    return graph_from_molecule(atoms, bonds)


def nearmiss_sessions(rng, tier):
    ss = []
    pool = drivers.molecule_pool(rng, tier, n_random=80 if tier == "quick" else 600, nmax=9, corpus_n=10 if tier == "quick" else 120)
    pool += drivers.special_molecules()
    for name, g in pool:
        variants = [v for v in (two_switch(g, rng), move_label(g, rng), drop_label(g, rng), from_dicts_variant(g, rng)) if v is not None]
        if not variants:
            continue
        S = Session("near-" + name)
        for h in [g] + variants:
            o = S.input(copy.deepcopy(h))
            c = S.canon(o)
            if c:
                S.ser(c)
        ss.append(S)
    return ss


def mutate_sessions(rng, tier, n=30):
    """history: the same object is edited in place between calls (a cache keyed on identity would go stale)"""
    ss = []
    pool = [(f"mut{i}", gen.random_molecule(rng, 7)) for i in range(n if tier == "quick" else n * 6)]
    for name, g in pool:
        if g.number_of_nodes() < 2:
            continue
        S = Session(name)
        o = S.input(g)
        c = S.canon(o)
        if c:
            S.ser(c)
        live = S.objs[o]
        a, b = rng.sample(list(live.nodes), 2)
        if live.has_edge(a, b):
            live.remove_edge(a, b)
        else:
            live.add_edge(a, b, bond_type=1)
            live.edges[a, b][record.ETAG] = next(record._tagctr)
        S.ev.append({"op": "mutate", "obj": o, "g": record.project(live), "newcls": 500000 + o})
        c2 = S.canon(o)
        if c2:
            S.ser(c2)
        # the parsed graph of the first string, edited in place, then the same string parsed again
        s1 = next((e["ret"] for e in S.ev if e["op"] == "ser"), None)
        if s1:
            p1 = S.parse(s1, of=c)
            if p1 and S.objs[p1].number_of_nodes() >= 2:
                lp = S.objs[p1]
                x, y = rng.sample(list(lp.nodes), 2)
                if lp.has_edge(x, y):
                    lp.remove_edge(x, y)
                else:
                    lp.add_edge(x, y)
                S.ev.append({"op": "mutate", "obj": p1, "g": record.project(lp), "newcls": 600000 + p1})
                S.parse(s1, of=c)
        ss.append(S)
    return ss


def same_size_edit_sessions(rng, tier, n=24):
    """history: an object is canonicalized, then edited in place *without changing its atom or bond count* (a charge, a bond type, a
    coordinate, a bond moved elsewhere), then canonicalized again: the second result is the object as it now stands under a renaming
    (a result remembered per object and revalidated by size only would be stale)"""
    ss = []
    fam = [g for name, g in gen.symmetric_families(rng) if 3 <= g.number_of_nodes() <= 14]
    for i in range(n if tier == "quick" else n * 8):
        g = gen.random_molecule(rng, 7, label_p=0.2) if i % 3 else copy.deepcopy(rng.choice(fam))
        if g.number_of_nodes() < 2:
            continue
        S = Session(f"samesize{i}")
        o = S.input(g)
        c = S.canon(o)
        if c:
            S.ser(c)
        live = S.objs[o]
        for rep in range(2):
            kind = rng.choice(["chg", "bond_type", "coord", "move"])
            edges = list(live.edges)
            free = [(x, y) for x in live.nodes for y in live.nodes if x < y and not live.has_edge(x, y)]
            if kind == "bond_type" and edges:
                a, b = rng.choice(edges)
                live.edges[a, b]["bond_type"] = live.edges[a, b].get("bond_type", 1) % 3 + 1
            elif kind == "move" and edges and free:
                a, b = rng.choice(edges)
                d = dict(live.edges[a, b])
                live.remove_edge(a, b)
                x, y = rng.choice(free)
                live.add_edge(x, y, **d)
            elif kind == "coord":
                a = rng.choice(list(live.nodes))
                live.nodes[a]["x_coord"] = float(live.nodes[a].get("x_coord", 0.0)) + 1.5
            else:
                a = rng.choice(list(live.nodes))
                live.nodes[a]["chg"] = live.nodes[a].get("chg", 0) + rng.choice([1, -1, 2])
            S.ev.append({"op": "mutate", "obj": o, "g": record.project(live), "newcls": 520000 + 10 * o + rep})
            c2 = S.canon(o)
            if c2:
                S.ser(c2)
        ss.append(S)
    return ss


def text_nearmiss_sessions(rng, tier):
    """files of different molecules (a label dropped, moved to another element, a radical removed, a bond removed), spelled with
    continuation lines / several property lines: the pipeline must keep them apart"""
    import textgen
    ss = []
    for i in range(40 if tier == "quick" else 500):
        M = textgen.abstract_molecule(rng, 7, coords=["0", "1.5", "-2.25"])
        lab = [k for k, a in enumerate(M["atoms"]) if a["mass"] or a["rad"]]
        if not lab:
            k = rng.randrange(len(M["atoms"]))
            M["atoms"][k]["mass"] = 13 if M["atoms"][k]["sym"] != "H" else 2
            lab = [k]
        for a in M["atoms"]:
            if a["rad"] not in (0, 2):
                a["rad"] = 2
        N = {"atoms": [dict(a) for a in M["atoms"]], "bonds": list(M["bonds"])}
        k = rng.choice(lab)
        if N["atoms"][k]["mass"] and (not N["atoms"][k]["rad"] or rng.random() < 0.5):
            N["atoms"][k]["mass"] = 0
        else:
            N["atoms"][k]["rad"] = 0
        if i % 4 == 0:
            # a radical ion: the radical and the charge sit on different atoms, so V2000 needs an M  RAD and an M  CHG line
            M["atoms"] = [dict(a, chg=0, rad=0) for a in M["atoms"]] + [dict(sym="N", chg=1, rad=0, mass=0, x="0", y="0", z="0"), dict(sym="C", chg=0, rad=2, mass=0, x="1.5", y="0", z="0")]
            N = {"atoms": [dict(a) for a in M["atoms"]], "bonds": list(M["bonds"])}
            N["atoms"][-1]["rad"] = 0
        single = i % 4 == 1
        if single:
            # exactly one labelled atom and nothing else on its line: losing that one property turns M into N
            M["atoms"] = [dict(a, chg=0, rad=0, mass=0) for a in M["atoms"]]
            k = rng.randrange(len(M["atoms"]))
            key = rng.choice(["mass", "rad"])
            M["atoms"][k][key] = 2 if key == "rad" else (13 if M["atoms"][k]["sym"] != "H" else 2)
            N = {"atoms": [dict(a) for a in M["atoms"]], "bonds": list(M["bonds"])}
            N["atoms"][k][key] = 0
        flat = i % 8 == 2
        if flat:
            # files written without coordinates: atoms of one element have identical atom lines, in one file and across the two;
            # exactly one atom carries a label in the first file and none in the second
            nat = rng.randint(2, 6)
            el = rng.choice(["C", "N", "O"])
            M = {"atoms": [dict(sym=el if rng.random() < 0.8 else "S", chg=0, rad=0, mass=0, x="0.0000", y="0.0000", z="0.0000") for _ in range(nat)],
                 "bonds": [(j, j + 1, 1) for j in range(nat - 1)]}
            N = {"atoms": [dict(a) for a in M["atoms"]], "bonds": list(M["bonds"])}
            k = rng.randrange(nat)
            M["atoms"][k][rng.choice(["mass", "rad"])] = 2
        if i % 8 == 6 and M["bonds"]:
            # the two files differ in one bond line, whatever its bond type (coordination and hydrogen bonds included)
            j = rng.randrange(len(M["bonds"]))
            M["bonds"][j] = (M["bonds"][j][0], M["bonds"][j][1], rng.choice([10, 10, 9, 8, 5, 4]))
            N = {"atoms": [dict(a) for a in M["atoms"]], "bonds": [b for jj, b in enumerate(M["bonds"]) if jj != j]}
        S = Session(f"textnear-{i}")
        ids = []
        if i % 8 == 3 and M["bonds"]:
            # a multi-attachment bond (star atom, ENDPTS list spelled with runs of blanks) against the same file without that bond line
            for attempt in range(6):
                lines, _ = textgen.render_v3000(M, rng, opts={"cont": 0, "star": True, "wide": True, "extras": False, "trail": False, "dt": False, "tailblank": False})
                star = [l for l in lines if "ENDPTS=(" in l]
                if star:
                    break
            if star:
                rest = []
                for l in lines:
                    if "ENDPTS=(" in l:
                        continue
                    t = l.split()
                    if len(t) >= 5 and t[:3] == ["M", "V30", "COUNTS"]:
                        t[4] = str(int(t[4]) - len(star))
                        l = "M  V30 " + " ".join(t[2:])
                    rest.append(l)
                ids = [S.read(lines, "V3000", "C07", floats=textgen.floats_of(M)), S.read(rest, "V3000", "C07", floats=textgen.floats_of(M))]
        for X in ((M, N) if not ids else ()):
            if single:
                lines, _ = textgen.render_v3000(X, rng, opts={"cont": 0, "extras": False, "defaults": False, "star": False, "dt": False, "tailblank": False})
                out_lines = []
                for l in lines:
                    j = max(l.find(" MASS="), l.find(" RAD="))
                    while j > 0 and l[j - 1] == " ":
                        j -= 1                      # in front of the whole run of blanks
                    if l.startswith("M  V30 ") and j > 8:
                        out_lines += [l[:j] + "-", "M  V30 " + l[j:]]
                    else:
                        out_lines.append(l)
                ids.append(S.read(out_lines, "V3000", "C07", floats=textgen.floats_of(X)))
            elif (rng.random() < 0.4 or i % 4 == 0 or flat) and textgen.fits_v2000(X):
                lines, _ = textgen.render_v2000(X, rng, opts={"group": rng.choice([1, 2, 8]), "order": rng.choice(["cri", "irc", "mixed"]), "mode": "lines" if i % 4 == 0 or flat else rng.choice(["lines", "stale"])})
                ids.append(S.read(lines, "V2000", "C08", floats=textgen.floats_of(X)))
            else:
                lines, _ = textgen.render_v3000(X, rng, opts={"cont": rng.choice([0, 1, 2]), "extras": True, "star": False, "dt": False})
                # a continuation break exactly in front of the blank before a labelling property
                out_lines = []
                for l in lines:
                    j = max(l.find(" MASS="), l.find(" RAD="))
                    if l.startswith("M  V30 ") and j > 8 and not l.endswith("-") and rng.random() < 0.7:
                        out_lines += [l[:j] + "-", "M  V30 " + l[j:]]
                    else:
                        out_lines.append(l)
                ids.append(S.read(out_lines, "V3000", "C07", floats=textgen.floats_of(X)))
        for x in ids:
            if x:
                c = S.canon(x)
                if c:
                    S.ser(c)
        if all(ids):
            S.distincttext(ids[0], ids[1])
        ss.append(S)
    return ss


@check("C02")
def c02(out, tier, rng):
    design_pipeline(out, tier)
    items, _ = drivers.spec_enumerated(3, "PaletteHDCO")
    ss = group_sessions(items, rng)
    if tier == "thorough":
        items4, _ = drivers.spec_enumerated(4, "PaletteHCO")
        ss += group_sessions(items4, rng)
    out.extra["spec_to_code_inputs"] = len(items)
    ss += nearmiss_sessions(rng, tier)
    ss += mutate_sessions(rng, tier)
    ss += text_nearmiss_sessions(rng, tier)
    ss += hash_twin_sessions(rng, tier)
    # CFI twins: same size, same degrees, indistinguishable by refinement, not isomorphic
    cfi = gen.cfi_graphs(80 if tier == "quick" else 220)
    S = Session("cfi-twins")
    for name, g in cfi:
        o = S.input(g)
        c = S.canon(o, spy=False)
        if c:
            S.ser(c)
    ss.append(S)
    count_sessions(out, ss, "c02")
    # C02 is decided by two clauses: a shared string between molecules the specification can tell apart, and
    # (beyond brute force) the witness check: the molecule must be isomorphic to what the string states
    v = out.validate("Trace_Tucan", TRACE_CFG.format(rl=0, bf=6), [s.record() for s in ss], "C02:")
    for k, p in v.items():
        w = [c for c in p.get("viol", []) if c.startswith("C03:string-does-not-reconstruct")]
        if w:
            case = next(s.record() for s in ss if s.id == k)
            out.violations.append({"clause": "C02:string-does-not-determine-the-molecule(" + w[0] + ")", "case": k,
                                   "replay": out.write_replay(case, w)})
    for s in ss[:3]:
        out.sample({"session": s.id, "strings": [e.get("ret") for e in s.ev if e["op"] == "ser"]})
    out.extra["rule"] = RULE + "; C02 sessions hold several different molecules of equal formula"
    out.assumptions += ["non-isomorphism is decided by TLC by enumeration up to 6 atoms, by colour / bond counts, and otherwise through "
                        "the witness check against the specification's own reading of the string"]


# ---------------------------------------------------------------------------------------------- C03
@check("C03")
def c03(out, tier, rng):
    design_pipeline(out, tier, downstream=True)
    ss = enumerated_sessions(out, tier, rng, parse_back=True)
    ss += pool_sessions(rng, tier, k=2, parse_back="all", feedback=True)
    ss += mutate_sessions(rng, tier, n=15)
    ss += molfile_order_sessions(rng, tier, parse_back=True, n_quick=25)
    ss += reader_fed_sessions(rng, tier, parse_back=True)
    ss += parser_fed_sessions(rng, tier)
    ss += moved_bond_sessions(rng, tier)
    ss += rebuilt_sessions(rng, tier, n=20, parse_back=True)
    count_sessions(out, ss, "c03")
    validate_sessions(out, ss, "C03:")
    out.extra["rule"] = RULE
    out.assumptions += ["the witness bijection is proposed by the harness and checked by TLC against the specification's own reading (Denote) of the string"]


# ---------------------------------------------------------------------------------------------- C04
def stale_partition_sessions(rng, tier, n=25):
    """canonical graphs (which carry partition values) edited in place and canonicalized again, next to a fresh
    description of the edited molecule"""
    ss = []
    for i in range(n if tier == "quick" else n * 6):
        g = gen.random_molecule(rng, 7, pool="organic")
        if g.number_of_nodes() < 2:
            continue
        S = Session(f"stale{i}")
        o = S.input(g)
        c = S.canon(o)
        if not c:
            continue
        K = S.objs[c]
        a = rng.choice(list(K.nodes))
        new = rng.choice(["F", "Cl", "N", "O", "S"])
        K.nodes[a]["element_symbol"] = new
        K.nodes[a]["atomic_number"] = gen.Z[new]
        K.nodes[a]["invariant_code"] = (gen.Z[new], K.nodes[a].get("mass", 0), K.nodes[a].get("rad", 0))
        S.ev.append({"op": "mutate", "obj": c, "g": record.project(K), "newcls": 700000 + c})
        # a fresh description of the edited molecule: relabelled, partition attribute reset like a reader would
        p = gen.random_perm(rng, K.number_of_nodes())
        fresh = relabel(K, p, rng)
        for x in fresh.nodes:
            fresh.nodes[x]["partition"] = 0
        f = S.derive(c, fresh, p)
        for x in (c, f):
            r = S.canon(x)
            if r:
                S.ser(r)
        ss.append(S)
    # two canonical graphs combined by the user (disjoint union keeps the stale partition values)
    for i in range(8 if tier == "quick" else 40):
        g1, g2 = gen.random_molecule(rng, 4), gen.random_molecule(rng, 4)
        S = Session(f"union{i}")
        ks = []
        for g in (g1, g2):
            o = S.input(g)
            c = S.canon(o)
            if c:
                ks.append(S.objs[c])
        if len(ks) < 2:
            continue
        n0, n1 = ks[0].number_of_nodes(), ks[1].number_of_nodes()
        u01 = nx.disjoint_union(ks[0], ks[1])          # keeps tags and the (now stale) partition values
        u10 = nx.disjoint_union(ks[1], ks[0])
        first = S.input(u01, tag=False)
        perm = [n1 + a for a in range(n0)] + [a for a in range(n1)]
        second = S.derive(first, u10, perm)
        for x in (first, second):
            r = S.canon(x)
            if r:
                S.ser(r)
        ss.append(S)
    return ss


def hash_twin_sessions(rng, tier):
    """two different molecules whose data hash alike, through the pipeline one after the other in one process (both orders)"""
    ss = []
    tw = gen.hash_twins()
    for name, a, b in (tw if tier == "thorough" else rng.sample(tw, 8)):
        for order in ("ab", "ba"):
            S = Session(f"{name}-{order}")
            for g in ((a, b) if order == "ab" else (b, a)):
                o = S.input(copy.deepcopy(g))
                c = S.canon(o)
                if c:
                    S.ser(c)
                p = gen.random_perm(rng, g.number_of_nodes())
                c2 = S.canon(S.derive(o, relabel(S.objs[o], p, rng), p))
                if c2:
                    S.ser(c2)
            ss.append(S)
    return ss


def library_refined_sessions(rng, tier, n=18, raw_ser=True):
    """the graphs the library's own partitioning steps hand out (partition_molecule_by_attribute, refine_partitions: the same
    molecule with partition values and whatever else those steps leave on the atoms) in the hands of a user: renumbered, a bond
    moved, canonicalized again, serialized as they are; and canonical graphs renumbered by the user and serialized as they are"""
    import tucan.canonicalization as tc
    ss = []
    part, refine = getattr(tc, "partition_molecule_by_attribute", None), getattr(tc, "refine_partitions", None)
    fam = [g for name, g in gen.symmetric_families(rng) if g.number_of_nodes() <= 20]
    for i in range(n if tier == "quick" else n * 8):
        g = gen.random_molecule(rng, 8, density=rng.choice([0.25, 0.4])) if i % 3 else copy.deepcopy(rng.choice(fam))
        nn = g.number_of_nodes()
        if nn < 3:
            continue
        S = Session(f"librefined{i}")
        o = S.input(g)
        r = None
        if part and refine:
            try:
                r = list(refine(part(S.objs[o], "invariant_code")))[-1] if i % 2 else part(S.objs[o], "invariant_code")
            except Exception:
                r = None
        descs = [o]
        if r is not None and "bad" not in record.project(r):
            k = S.derive(o, r, list(range(nn)), kind="nonidentity")
            if raw_ser:
                S.ser(k, raw=True)
            p = gen.random_perm(rng, nn)
            descs += [k, S.derive(k, relabel(r, p, rng), p, kind="nonidentity")]
            if i % 4 == 1 and r.number_of_edges() >= 1:
                # one bond of the partitioned graph moved in place: a new molecule, described a second time from scratch
                a, b = rng.choice(list(r.edges))
                free = [(x, y) for x in r.nodes for y in r.nodes if x < y and not r.has_edge(x, y)]
                if free:
                    x, y = rng.choice(free)
                    d = dict(r.edges[a, b])
                    r.remove_edge(a, b); r.add_edge(x, y, **d)
                    S.ev.append({"op": "mutate", "obj": k, "g": record.project(r), "newcls": 970000 + k})
                    q = gen.random_perm(rng, nn)
                    fresh = relabel(r, q, rng)
                    for v in fresh.nodes:
                        for key in [key for key in fresh.nodes[v] if key not in record_keys()]:
                            del fresh.nodes[v][key]          # a description from scratch carries the reader's attributes only
                        fresh.nodes[v]["partition"] = 0
                    descs = [k, S.derive(k, fresh, q, kind="nonidentity")]
        cs = []
        for x in descs:
            c = S.canon(x)
            if c:
                cs.append(c)
                S.ser(c)
        if cs and raw_ser:
            # a canonical graph renumbered by the user keeps its partition values; serialized as it is
            c = cs[0]
            p = gen.random_perm(rng, nn)
            S.ser(S.derive(c, relabel(S.objs[c], p, rng), p), raw=True)
        ss.append(S)
    return ss


def record_keys():
    return {"element_symbol", "atomic_number", "chg", "mass", "rad", "x_coord", "y_coord", "z_coord", "invariant_code", "partition", record.TAG}


def rebuilt_sessions(rng, tier, n=25, parse_back=False):
    """molecules built with graph_from_molecule from attribute dictionaries taken over from another graph's atoms (derived entries
    included) after the user changed an element, an isotope or a radical: the result is the molecule the dictionaries now state"""
    from tucan.graph_utils import graph_from_molecule
    ss = []
    fam = [g for name, g in gen.symmetric_families(rng) if g.number_of_nodes() <= 16]
    for i in range(n if tier == "quick" else n * 8):
        g = copy.deepcopy(rng.choice(fam)) if i % 2 else gen.random_molecule(rng, 8, pool="organic", label_p=0.1)
        nn = g.number_of_nodes()
        if nn < 2:
            continue
        S = Session(f"rebuilt{i}")
        o = S.input(g)
        c0 = S.canon(o)
        if c0:
            S.ser(c0)
        atoms = {a: copy.deepcopy(dict(d)) for a, d in S.objs[o].nodes(data=True)}
        a = rng.choice(list(atoms))
        what = rng.choice(["mass", "rad", "element"])
        if what == "mass":
            atoms[a]["mass"] = atoms[a].get("mass", 0) + rng.choice([1, 2, 13])
        elif what == "rad":
            atoms[a]["rad"] = atoms[a].get("rad", 0) % 3 + 1
        else:
            new = rng.choice([s for s in ["N", "O", "S", "Cl", "Si"] if s != atoms[a]["element_symbol"]])
            atoms[a]["element_symbol"], atoms[a]["atomic_number"] = new, gen.Z[new]
        bonds = {(x, y): dict(d) for x, y, d in S.objs[o].edges(data=True)}
        for d in atoms.values():
            d.pop(record.TAG, None)
        for d in bonds.values():
            d.pop(record.ETAG, None)
        # h: a new molecule, built by the library's constructor from the edited dictionaries
        k = S.build(atoms, bonds)
        if not k:
            ss.append(S)
            continue
        h = S.objs[k]
        descs = [k] + [S.derive(k, relabel(S.objs[k], p, rng), p) for p in [gen.random_perm(rng, nn) for _ in range(2)]]
        # ... and the same molecule written down from scratch
        scratch = gen.mol([(d["element_symbol"], d.get("mass", 0), d.get("rad", 0), d.get("chg", 0)) for _, d in sorted(h.nodes(data=True))],
                          [(x, y, d.get("bond_type", 1)) for x, y, d in h.edges(data=True)])
        descs.append(S.derive(k, record.tag_graph(scratch), list(range(nn)), kind="nonidentity"))
        for x in descs:
            c = S.canon(x)
            if c:
                t = S.ser(c)
                if t and parse_back:
                    p = S.parse(t, of=c)
                    if p:
                        c2 = S.canon(p)
                        if c2:
                            S.ser(c2)
        ss.append(S)
    return ss


def reparsed_sessions(rng, tier, n=20):
    """one string is two descriptions of one molecule when it is parsed twice: the graph of the first parse is canonicalized, then
    edited in place by its owner, then the same string is parsed again and that graph canonicalized (a parser that hands out one
    shared object per string would describe a different molecule the second time)"""
    import checks_parse
    ss = []
    strings = [s for _, s in checks_parse.library_strings(rng, "quick")] if hasattr(checks_parse, "library_strings") else []
    strings = [s for s in strings if isinstance(s, str) and "/" in s]
    rng.shuffle(strings)
    for i, s in enumerate(strings[:n if tier == "quick" else n * 6]):
        S = Session(f"reparsed{i}")
        S.ev.append({"op": "string", "sid": 1, "s": s})
        p1 = S.parse(s, sid=1)
        if not p1:
            ss.append(S)
            continue
        c1 = S.canon(p1)
        if c1:
            S.ser(c1)
        lp = S.objs[p1]
        if lp.number_of_nodes() >= 2:
            x, y = rng.sample(list(lp.nodes), 2)
            if lp.has_edge(x, y):
                lp.remove_edge(x, y)
            else:
                lp.add_edge(x, y, bond_type=1)
                lp.edges[x, y][record.ETAG] = next(record._tagctr)
            S.ev.append({"op": "mutate", "obj": p1, "g": record.project(lp), "newcls": 610000 + p1})
        p2 = S.parse(s, sid=1)
        if p2:
            c2 = S.canon(p2)
            if c2:
                S.ser(c2)
        ss.append(S)
    return ss


@check("C04")
def c04(out, tier, rng):
    design_pipeline(out, tier)
    if tier == "thorough":
        control_zip_adapter(out)
    ss = enumerated_sessions(out, tier, rng, parse_back=False)
    ss += pool_sessions(rng, tier, k=3, feedback=True, parse_back=False, nonidentity=True)
    ss += stale_partition_sessions(rng, tier)
    ss += library_refined_sessions(rng, tier, raw_ser=False)
    ss += rebuilt_sessions(rng, tier)
    ss += hash_twin_sessions(rng, tier)
    ss += reparsed_sessions(rng, tier)
    S = Session("solvent-box")
    o = S.input(gen.solvent_box(rng))
    for x in [o] + [S.derive(o, reorder_nodes(relabel(S.objs[o], p, rng), rng), p) for p in [gen.random_perm(rng, S.objs[o].number_of_nodes()) for _ in range(2 if tier == "quick" else 6)]]:
        S.canon(x, spy=False)
    ss.append(S)
    # refinement that needs more than a hundred rounds: long unsymmetrical chains
    for nheavy in ((270,) if tier == "quick" else (270, 520, 900)):
        g = gen.mol([("C", 0, 0, 0)] * nheavy + [("Cl", 0, 0, 0)], [(i, i + 1, 1) for i in range(nheavy)])
        S = Session(f"longchain{nheavy}")
        o = S.input(g)
        objs = [o] + [S.derive(o, relabel(S.objs[o], p, rng), p) for p in [gen.random_perm(rng, nheavy + 1) for _ in range(2)]]
        for x in objs:
            S.canon(x, spy=False)
        ss.append(S)
    count_sessions(out, ss, "c04")
    validate_sessions(out, ss, "C04:")
    out.extra["rule"] = RULE
    out.assumptions += ["observed at canonicalize_molecule's return value; charges, coordinates, bond orders are not compared"]


# ---------------------------------------------------------------------------------------------- C05
def formula_stress(rng, tier, n=60):
    out = []
    for i in range(n if tier == "quick" else n * 10):
        kind = rng.choice(["all", "noC", "prefix", "bigcount", "attrs"])
        if kind == "bigcount":
            k = rng.choice([10, 11, 12, 20, 101])
            syms = [rng.choice(["H", "C", "B", "F"])] * k + [rng.choice(gen.SYMBOLS) for _ in range(rng.randint(0, 3))]
            atoms = [(s, 0, 0, 0) for s in syms]
            bonds = [(j, j + 1, 1) for j in range(len(atoms) - 1) if rng.random() < 0.6]
            out.append((f"big{i}", gen.mol(atoms, bonds)))
        elif kind == "attrs":
            m = rng.randint(2, 7)
            atoms = [(rng.choice(["C", "H", "O", "N"]), rng.choice([0, 0, 1, 2, 13, 100, 256]), rng.choice([0, 0, 1, 2, 3]), 0) for _ in range(m)]
            bonds = [(a, b, 1) for a, b in itertools.combinations(range(m), 2) if rng.random() < 0.35]
            out.append((f"attrs{i}", gen.mol(atoms, bonds)))
        else:
            out.append((f"{kind}{i}", gen.random_molecule(rng, 9, pool=kind, label_p=0.3)))
    # every element once, in one molecule and as single atoms
    out.append(("all118", gen.mol([(s, 0, 0, 0) for s in gen.SYMBOLS], [(i, i + 1, 1) for i in range(0, 117, 3)])))
    for s in rng.sample(gen.SYMBOLS, 12 if tier == "quick" else 118):
        out.append((f"atom-{s}", gen.mol([(s, 0, 0, 0)], [])))
    # more than a thousand atoms: four-digit indices
    k = 1040
    out.append(("ring1040", gen.mol([("C", 0, 0, 0)] * k, [(i, (i + 1) % k, 1) for i in range(k)])))
    if tier == "thorough":
        w = 340
        out.append(("water340", gen.mol([("H", 0, 0, 0)] * (2 * w) + [("O", 0, 0, 0)] * w, [(2 * i, 2 * w + i, 1) for i in range(w)] + [(2 * i + 1, 2 * w + i, 1) for i in range(w)])))
    return out


@check("C05")
def c05(out, tier, rng):
    design_pipeline(out, tier, downstream=True)
    ss = enumerated_sessions(out, tier, rng, parse_back=False, quick_limit=80)
    pool = formula_stress(rng, tier) + drivers.special_molecules() + gen.multi_labelled(rng, 12 if tier == "quick" else 120)
    ss += [pipeline_session(name, g, rng, k=1, parse_back=True) for name, g in pool]
    ss += reader_fed_sessions(rng, tier)
    ss += parser_fed_sessions(rng, tier)
    ss += mutate_sessions(rng, tier, n=12)          # the string must describe the molecule as it stands when the pipeline is called
    ss += other_calls_first_sessions(rng, tier)
    count_sessions(out, ss, "c05")
    validate_sessions(out, ss, "C05:", rl=0)
    out.extra["rule"] = RULE + "; C05 judges every emitted string with the specification's character-level recognizer and layout rules"
    out.assumptions += ["the validator is spec/Grammar.tla + Tucan!LayoutClauses, written from tucan.ebnf; it shares no code with the library or ANTLR"]


def other_calls_first_sessions(rng, tier, n=25):
    """the object goes through other public calls (molfile writer, permutation helper, an earlier pipeline run, a serialization as it
    is) before the pipeline is run on it: the string must describe the molecule all the same"""
    ss = []
    pool = drivers.special_molecules()
    pool = rng.sample(pool, min(len(pool), 10 if tier == "quick" else len(pool)))
    pool += [(f"first{i}", gen.random_molecule(rng, 8, label_p=0.3)) for i in range(n if tier == "quick" else n * 8)]
    for name, g in pool:
        S = Session("callsfirst-" + name)
        o = S.input(g)
        for call in rng.sample(["write", "permute", "pipeline", "serraw"], rng.randint(1, 3)):
            if call == "write":
                S.write(o)
            elif call == "permute":
                S.permute(o, rng.choice([0.0, 0.25, 0.5, 0.999]))
            elif call == "serraw":
                S.ser(o, raw=True)
            else:
                c = S.canon(o)
                if c:
                    S.ser(c)
        c = S.canon(o)
        if c:
            t = S.ser(c)
            if t:
                S.parse(t, of=c)
        ss.append(S)
    return ss


def parser_fed_sessions(rng, tier):
    """graphs as the PARSER produces them, also from strings it ought to reject (if it accepts one, what the pipeline then
    emits is still judged): self-bonds on high indices, padded strings, large values"""
    from tucan.io import graph_from_tucan
    from tucan.canonicalization import canonicalize_molecule
    from tucan.serialization import serialize_molecule
    strings = ["C300/(1-2)(299-300)(300-300)", "C257/(257-257)", "C400/(399-399)", " C2/(1-2)", "C2/(1-2)\n", "C2//(1:mass=1000000)", "C2//(2:mass=12345678,rad=1000000)",
               "H2//(1:mass=999999)(2:rad=100000)", "C2/(1-2)(1-2)(2-1)", "C3/(3-1)(2-1)//"[:-2], "H2O/(2-3)(1-3)/(2:rad=3)(1:mass=3)"]
    ss = []
    for i, s in enumerate(strings):
        try:
            g = graph_from_tucan(s)
        except Exception:
            continue
        S = Session(f"pf-{i}", note=s[:100])
        if "bad" in record.project(g):
            try:
                out = serialize_molecule(canonicalize_molecule(g))
                if isinstance(out, str):
                    S.ev.append({"op": "emitted", "s": out})
            except Exception:
                pass
        else:
            o = S.input(g)
            c = S.canon(o)
            if c:
                t = S.ser(c)
                if t:
                    S.parse(t, of=c)
        ss.append(S)
    return ss


def moved_bond_sessions(rng, tier, n=15):
    """a canonical graph is edited in place so that its labels and its number of bonds stay what they were (one bond moved): the
    pipeline must treat it as the molecule it now is"""
    ss = []
    fam = [g for name, g in gen.symmetric_families(rng) if "H" in name and g.number_of_nodes() <= 24]
    for i in range(n if tier == "quick" else n * 8):
        kind = i % 3
        if kind == 0:
            g = gen.random_molecule(rng, 7, density=0.4)
        elif kind == 1:
            # a saturated chain with a substituent (moving the bond to the substituent makes a constitutional isomer)
            k = rng.randint(4, 7)
            atoms = [("C", 0, 0, 0)] * k + [(rng.choice(["Cl", "O", "N"]), 0, 0, 0)]
            bonds = [(a, a + 1, 1) for a in range(k - 1)] + [(rng.randrange(k), k, 1)]
            for a in range(k):
                for _ in range(2):
                    atoms.append(("H", 0, 0, 0)); bonds.append((a, len(atoms) - 1, 1))
            g = gen.mol(atoms, bonds)
        else:
            g = copy.deepcopy(rng.choice(fam))
        if g.number_of_edges() < 1 or g.number_of_nodes() < 3:
            continue
        S = Session(f"moved{i}")
        o = S.input(g)
        c = S.canon(o)
        if not c:
            continue
        S.ser(c)
        K = S.objs[c]
        a, b = rng.choice(list(K.edges))
        free = [(x, y) for x in K.nodes for y in K.nodes if x < y and not K.has_edge(x, y)]
        if not free:
            continue
        x, y = rng.choice(free)
        d = dict(K.edges[a, b])
        K.remove_edge(a, b)
        K.add_edge(x, y, **d)
        S.ev.append({"op": "mutate", "obj": c, "g": record.project(K), "newcls": 950000 + c})
        c2 = S.canon(c)
        if c2:
            t = S.ser(c2)
            if t:
                p = S.parse(t, of=c2)
                if p:
                    c3 = S.canon(p)
                    if c3:
                        S.ser(c3)
        ss.append(S)
    return ss


def reader_fed_sessions(rng, tier, parse_back=False):
    """molecules as the readers produce them from spellings that stress defaults and case (explicit zeros, D/T with
    ISO entries, upper-case symbols that a tolerant reader might accept)"""
    from tucan.io import graph_from_molfile_text
    import textgen
    ss = []
    for name, text in textgen.reader_stress_texts(rng, tier):
        try:
            g = graph_from_molfile_text(text)
        except Exception:
            continue            # a rejected file emits nothing: outside C05
        S = Session("rd-" + name, note=text[:400])
        if "bad" in record.project(g):
            # the reader returned something that is not a molecule in the model's terms (e.g. a real-valued mass): whatever the
            # pipeline emits for it is judged as a string
            try:
                from tucan.canonicalization import canonicalize_molecule
                from tucan.serialization import serialize_molecule
                s = serialize_molecule(canonicalize_molecule(g))
                if isinstance(s, str):
                    S.ev.append({"op": "emitted", "s": s})
            except Exception:
                pass
            ss.append(S)
            continue
        o = S.input(g)
        c = S.canon(o)
        if c:
            t = S.ser(c)
            if t is not None and parse_back:
                S.parse(t, of=c)
        ss.append(S)
    return ss


# ---------------------------------------------------------------------------------------------- C12
@check("C12")
def c12(out, tier, rng):
    design_pipeline(out, tier)
    ss = enumerated_sessions(out, tier, rng, parse_back=False, repeat=True, quick_limit=100)
    ss += pool_sessions(rng, tier, k=2, feedback=True, repeat=True, nonidentity=True, parse_back=False, n_random=40)
    ss += mutate_sessions(rng, tier, n=20)
    ss += same_size_edit_sessions(rng, tier)
    ss += history_sessions(rng, tier)
    ss += stale_code_sessions(rng, tier)
    with record.debug_logging():         # the same calls inside an application that logs at DEBUG level
        dbg = pool_sessions(rng, tier, k=2, feedback=True, repeat=True, parse_back=False, n_random=15, corpus_n=4, specials=False)
    for S in dbg:
        S.id = "dbglog-" + S.id
    ss += dbg
    # design level: every call history (canonicalize / serialize / parse / relabel / edit in place, in any order) on small molecules
    for start in ((1, 3) if tier == "quick" else (1, 2, 3, 4)):
        out.design("MC_Calls", f"SPECIFICATION CSpec\nCONSTANTS RLimit = 99 BFLimit = 6 MaxLen = {5 if tier == 'quick' else 6} MaxObjs = {6 if tier == 'quick' else 7} Start = {start}\n"
                   "INVARIANT HistoriesHold\nINVARIANT OneStringPerClass\nCHECK_DEADLOCK FALSE\n", expect_depth=5, label=f"MC_Calls Start={start}", timeout=7200)
    scr, r = drivers.script_sessions(rng, tier)          # call histories generated by TLC's simulator from spec/Calls.tla
    out.states += r.distinct; out.transitions += r.generated
    out.extra["tlc_generated_call_scripts"] = len(scr)
    ss += scr
    count_sessions(out, ss, "c12")
    v = validate_sessions(out, ss, "C12:")
    # "both steps can be repeated on the same object with identical results": the registry clauses of C01 / C04 inside a
    # session that only repeats calls on the same objects are C12's
    for k, p in v.items():
        rec = next(s.record() for s in ss if s.id == k)
        if rec.get("note") == "repeat-only":
            cl = [c for c in p.get("viol", []) if c.startswith(("C01:", "C04:", "C15:"))]
            if cl:
                out.violations.append({"clause": "C12:repeated-call-gave-another-result(" + cl[0] + ")", "case": k,
                                       "replay": out.write_replay(rec, cl)})
    out.extra["rule"] = RULE
    out.assumptions += ["atoms are traced through unique tags attached by the driver; the renaming is read off the tags and applied by the specification"]


def stale_code_sessions(rng, tier, n=15):
    """the user edits an isotope / radical attribute of a graph without refreshing the derived 'invariant_code' entry and then calls the
    library: whatever the library makes of the inconsistent object, it must not write into it"""
    ss = []
    for i in range(n if tier == "quick" else n * 6):
        g = gen.random_molecule(rng, 7)
        S = Session(f"stalecode{i}")
        o = S.input(g)
        live = S.objs[o]
        a = rng.choice(list(live.nodes))
        live.nodes[a][rng.choice(["mass", "rad"])] = rng.choice([1, 2, 13])
        S.ev.append({"op": "mutate", "obj": o, "g": record.project(live), "newcls": 900000 + o})
        c = S.canon(o)
        if c:
            S.ser(c)
            S.canon(o)
        ss.append(S)
    return ss


def history_sessions(rng, tier, n=30):
    """repeated canonicalize / serialize calls on the same objects, in random order, depth up to 8"""
    ss = []
    for i in range(n if tier == "quick" else n * 8):
        g = gen.random_molecule(rng, 7)
        S = Session(f"hist{i}", note="repeat-only")
        o = S.input(g)
        canons = []
        for _ in range(rng.randint(3, 8)):
            if canons and rng.random() < 0.6:
                S.ser(rng.choice(canons))
            else:
                c = S.canon(rng.choice([o] + canons[:1]))
                if c:
                    canons.append(c)
        ss.append(S)
    return ss


# ---------------------------------------------------------------------------------------------- C13
def automorphism_sessions(rng, tier):
    """symmetric skeletons with constructed automorphisms (rotations, reflections, component swaps)"""
    ss = []
    def run(name, g, auts):
        S = Session("aut-" + name)
        o = S.input(g)
        c = S.canon(o)
        if not c:
            return
        K = S.objs[c]
        # where did atom a of g go?  read off the tags
        pos = {K.nodes[x][record.TAG]: x for x in K.nodes if record.TAG in K.nodes[x]}
        src = S.objs[o]
        if len(pos) != src.number_of_nodes():
            ss.append(S)
            return
        to = [pos[src.nodes[a][record.TAG]] for a in range(src.number_of_nodes())]
        inv = {v: k for k, v in enumerate(to)}
        for f in auts:
            perm = [to[f[inv[x]]] for x in range(len(to))]
            if record._check_iso(K, K, perm):          # only symmetries the driver itself can confirm are claimed
                S.aut(c, perm)
        S.ser(c)
        ss.append(S)
    sizes = (5, 6, 9, 12) if tier == "quick" else (5, 6, 7, 9, 12, 16, 24, 30)
    for n in sizes:
        cyc = gen._skeleton([(i, (i + 1) % n) for i in range(n)], n)
        run(f"cycle{n}", cyc, [[(i + 1) % n for i in range(n)], [(-i) % n for i in range(n)]])
        cyc1 = gen._skeleton([(i, (i + 1) % n) for i in range(n)], n, labels={0: (13, 0)})
        run(f"cycle{n}-13C", cyc1, [[(-i) % n for i in range(n)]])
        star = gen._skeleton([(0, i) for i in range(1, n)], n)
        run(f"star{n}", star, [[0] + [i % (n - 1) + 1 for i in range(1, n)]])
        star2 = gen._skeleton([(0, i) for i in range(1, n)], n, labels={1: (2, 0)})
        run(f"star{n}-D", star2, [[0, 1] + [(i - 1) % (n - 2) + 2 for i in range(2, n)]])
        path = gen._skeleton([(i, i + 1) for i in range(n - 1)], n)
        run(f"path{n}", path, [[n - 1 - i for i in range(n)]])
        dimer = gen._skeleton([(i, (i + 1) % n) for i in range(n)] + [(n + i, n + (i + 1) % n) for i in range(n)], 2 * n)
        run(f"2xcycle{n}", dimer, [[(i + n) % (2 * n) for i in range(2 * n)]])
    return ss


def prepartitioned_sessions(rng, tier):
    """graphs that already carry partition values from the library's own partitioning step (by element only) are canonicalized:
    the classes must still separate isotopes and radicals"""
    import tucan.canonicalization as tc
    ss = []
    part = getattr(tc, "partition_molecule_by_attribute", None)
    if part is None:
        return ss
    pool = [(n, g) for n, g in drivers.special_molecules() if any("mass" in d or "rad" in d for _, d in g.nodes(data=True))]
    pool += [(f"pp{i}", gen.random_molecule(rng, 7, pool="two", label_p=0.5)) for i in range(12 if tier == "quick" else 120)]
    for name, g in pool:
        try:
            h = part(g, "atomic_number")
        except Exception:
            continue
        S = Session("prepart-" + name)
        o = S.input(g)
        p = list(range(g.number_of_nodes()))
        d = S.derive(o, tag_like(S.objs[o], h), p)
        for x in (o, d):
            r = S.canon(x)
            if r:
                S.ser(r)
        ss.append(S)
    return ss


def tag_like(src, h):
    """h = src with other partition values: carry src's tags over so that the derivation verifies"""
    h = copy.deepcopy(h)
    for a in h.nodes:
        if record.TAG in src.nodes[a]:
            h.nodes[a][record.TAG] = src.nodes[a][record.TAG]
    for a, b in h.edges:
        if record.ETAG in src.edges[a, b]:
            h.edges[a, b][record.ETAG] = src.edges[a, b][record.ETAG]
    return h


@check("C13")
def c13(out, tier, rng):
    design_pipeline(out, tier)
    ss = enumerated_sessions(out, tier, rng, parse_back=False)
    ss += pool_sessions(rng, tier, k=3, feedback=True, parse_back=False)
    ss += automorphism_sessions(rng, tier)
    ss += stale_partition_sessions(rng, tier, n=15)
    ss += prepartitioned_sessions(rng, tier)
    ss += hash_twin_sessions(rng, tier)
    # centres with 256 arms each (neighbour counts beyond one byte), and graphs rebuilt from copied atom dictionaries
    S = Session("arms256")
    o = S.input(gen.arms_hubs(256))
    S.canon(o, spy=False)
    ss.append(S)
    for i in range(10 if tier == "quick" else 80):
        S = Session(f"fromdicts{i}")
        o = S.input(from_dicts_variant(gen.random_molecule(rng, 6, pool="two", label_p=0.2), rng))
        S.canon(o)
        ss.append(S)
    count_sessions(out, ss, "c13")
    validate_sessions(out, ss, "C13:", rl=30 if tier == "quick" else 60)
    out.extra["rule"] = RULE + "; refinement mode additionally compares every intermediate partition with spec/Refine.tla up to RLimit atoms"
    out.assumptions += ["symmetries beyond 6 atoms are constructed by the driver and verified by TLC before use (Automorphism action)"]


import checks_text  # noqa: E402  (registers C06-C09)
import checks_parse  # noqa: E402  (registers C10, C11)
import checks_misc  # noqa: E402  (registers C14, C15, C16)


# ---------------------------------------------------------------------------------------------- replay
def replay(pid, path):
    """re-validate a recorded violating case with TLC and print its verdict (the log in the replay file is the evidence: the
    events as recorded from the real code)"""
    rec = json.load(open(path))
    case = rec["case"]
    res = tlc.run_sharded("Trace_Tucan", TRACE_CFG.format(rl=30, bf=6), [case], shards=1)
    bad = []
    for r in res:
        for p in r.printed:
            print(json.dumps(p))
            bad += [c for c in p.get("viol", []) if c.startswith(pid + ":") or c in rec.get("clauses", [])]
    if bad:
        print(f"VIOLATION property={pid} replay={path}  [{';'.join(sorted(set(bad)))}]")
        return 1
    return 0
