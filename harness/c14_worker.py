#!/usr/bin/env python3
"""One process of the C14 workload: PYTHONHASHSEED comes from the environment, the call order from argv.
usage: c14_worker.py <workload.json> <order seed> <repo>   -> JSON lines {"key", "val"} on stdout"""
import hashlib, json, os, random, sys
sys.path.insert(0, os.path.dirname(os.path.abspath(__file__)))
if __name__ == "__main__":
    sys.path.insert(0, sys.argv[3])          # the working tree under test
from project import project


def dig(g):
    return hashlib.sha1(json.dumps(project(g), sort_keys=True).encode()).hexdigest()[:16]


def body(text):
    lines = text.splitlines()
    if len(lines) > 1:
        lines[1] = ""
    return hashlib.sha1("\n".join(lines).encode()).hexdigest()[:16]


def run_item(it):
    from tucan.io import graph_from_molfile_text, graph_from_tucan, graph_to_molfile
    from tucan.canonicalization import canonicalize_molecule
    from tucan.serialization import serialize_molecule
    op, arg = it["op"], it["arg"]
    try:
        if op == "read":
            return dig(graph_from_molfile_text(arg))
        if op == "pipeline":
            k = canonicalize_molecule(graph_from_molfile_text(arg))
            return serialize_molecule(k) + "|" + dig(k)
        if op == "parse":
            return dig(graph_from_tucan(arg))
        if op == "norm":
            return serialize_molecule(canonicalize_molecule(graph_from_tucan(arg)))
        if op == "write":
            return body(graph_to_molfile(graph_from_molfile_text(arg)))
        if op == "writecalc":
            return body(graph_to_molfile(graph_from_molfile_text(arg), calc_coordinates=True))
        if op == "writecalccanon":
            return body(graph_to_molfile(canonicalize_molecule(graph_from_molfile_text(arg)), calc_coordinates=True))
        if op == "writeparsed":
            return body(graph_to_molfile(canonicalize_molecule(graph_from_tucan(arg))))
    except BaseException as ex:  # noqa
        return "EXC:" + type(ex).__name__
    return "?"


def main():
    items = json.load(open(sys.argv[1]))
    rng = random.Random(int(sys.argv[2]))
    order = list(range(len(items)))
    rng.shuffle(order)
    # every item twice, the second time somewhere later: the answer must not depend on what was processed in between
    order = order + rng.sample(order, len(order))
    for i in order:
        print(json.dumps({"key": items[i]["key"], "val": run_item(items[i])}))


if __name__ == "__main__":
    main()
