#!/usr/bin/env python3
"""One process of the C14 workload: PYTHONHASHSEED comes from the environment, the call order from argv.
usage: c14_worker.py <workload.json> <order seed> <repo>   -> JSON lines {"key", "val"} on stdout"""
import hashlib, json, os, random, sys
sys.path.insert(0, os.path.dirname(os.path.abspath(__file__)))
if __name__ == "__main__":
    sys.path.insert(0, sys.argv[3])          # the working tree under test
from project import project


def dig(g):
    return hashlib.sha1(json.dumps(project(g), sort_keys=True).encode()).hexdigest()[:16]


def body(text):
    lines = text.splitlines()
    if len(lines) > 1:
        lines[1] = ""
    return hashlib.sha1("\n".join(lines).encode()).hexdigest()[:16]


def run_item(it):
    from tucan.io import graph_from_molfile_text, graph_from_tucan, graph_to_molfile
    from tucan.canonicalization import canonicalize_molecule
    from tucan.serialization import serialize_molecule
    op, arg = it["op"], it["arg"]
    try:
        if op == "read":
            return dig(graph_from_molfile_text(arg))
        if op == "pipeline":
            k = canonicalize_molecule(graph_from_molfile_text(arg))
            return serialize_molecule(k) + "|" + dig(k)
        if op == "parse":
            return dig(graph_from_tucan(arg))
        if op == "norm":
            return serialize_molecule(canonicalize_molecule(graph_from_tucan(arg)))
        if op == "write":
            return body(graph_to_molfile(graph_from_molfile_text(arg)))
        if op == "writecalc":
            return body(graph_to_molfile(graph_from_molfile_text(arg), calc_coordinates=True))
        if op == "writecalccanon":
            return body(graph_to_molfile(canonicalize_molecule(graph_from_molfile_text(arg)), calc_coordinates=True))
        if op == "writeparsed":
            return body(graph_to_molfile(canonicalize_molecule(graph_from_tucan(arg))))
    except BaseException as ex:  # noqa
        return "EXC:" + type(ex).__name__
    return "?"


def main_threads():
    """a fresh process in which the very first calls of ONE public operation are made by several threads at once (a table filled
    on first use, a lazily compiled pattern ... must not be seen half-built by another caller).  Which operation: order seed mod 5.
    The inputs of that operation are prepared beforehand in the main thread with the other operations."""
    import threading, copy
    from tucan.io import graph_from_molfile_text, graph_from_tucan, graph_to_molfile
    from tucan.canonicalization import canonicalize_molecule
    from tucan.serialization import serialize_molecule
    items = json.load(open(sys.argv[1]))
    seed = int(sys.argv[2])
    kind = ["ser", "canon", "parse", "read", "write"][seed % 5]
    first = [it for it in items if it["key"].endswith("|first")]
    by_op = lambda op: [it for it in items if it["op"] == op and not it["key"].endswith("|many")][:10]
    n = 8

    def prepare(k):
        """(item, callable returning the item's value) for thread k"""
        out = []
        try:
            if kind == "ser":
                for it in first:
                    g = canonicalize_molecule(graph_from_tucan(it["arg"]))
                    out.append((it, lambda g=g: serialize_molecule(g)))
            elif kind == "canon":
                for it in by_op("pipeline"):
                    g = graph_from_molfile_text(it["arg"])
                    out.append((it, lambda g=g: (lambda c: serialize_molecule(c) + "|" + dig(c))(canonicalize_molecule(g))))
            elif kind == "write":
                for it in by_op("write"):
                    g = graph_from_molfile_text(it["arg"])
                    out.append((it, lambda g=g: body(graph_to_molfile(g))))
            else:
                for it in (first + by_op("parse") if kind == "parse" else by_op("read")):
                    out.append((it, lambda it=it: run_item(it)))
        except BaseException:  # noqa: an input that cannot be prepared is left to the sequential workers
            pass
        return out

    def guarded_call(f):
        try:
            return f()
        except BaseException as ex:  # noqa
            return "EXC:" + type(ex).__name__
    prepared = [prepare(k) for k in range(n)]
    rest = [it for it in items if it["op"] in ("norm", "pipeline", "parse") and not it["key"].endswith("|first")]
    barrier = threading.Barrier(n)
    sys.setswitchinterval(1e-6)
    out, lock = [], threading.Lock()

    def w(k):
        r = random.Random(seed * 100 + k)
        mine_first = prepared[k][k % max(1, len(prepared[k])):] + prepared[k][:k % max(1, len(prepared[k]))]     # every thread starts elsewhere
        later = r.sample(rest, min(len(rest), 20))
        try:
            barrier.wait(timeout=60)
        except Exception:
            pass
        mine = [{"key": it["key"], "val": guarded_call(f)} for it, f in mine_first]
        mine += [{"key": it["key"], "val": run_item(it)} for it in later]
        with lock:
            out.extend(mine)
    ts = [threading.Thread(target=w, args=(k,), daemon=True) for k in range(n)]
    for t in ts:
        t.start()
    for t in ts:
        t.join(300)
    sys.setswitchinterval(0.005)
    # ... and once more afterwards, single-threaded: what the race left behind stays for the rest of the process
    for it, f in prepare(0):
        out.append({"key": it["key"], "val": guarded_call(f)})
    for rec in out:
        print(json.dumps(rec))


def main():
    if os.environ.get("VERIF_LOGDEBUG") == "1":
        import logging
        logging.basicConfig(level=logging.DEBUG, handlers=[logging.NullHandler()])     # an application that logs at DEBUG level
    if len(sys.argv) > 4 and sys.argv[4] == "threads":
        return main_threads()
    items = json.load(open(sys.argv[1]))
    rng = random.Random(int(sys.argv[2]))
    order = list(range(len(items)))
    rng.shuffle(order)
    # every item twice, the second time somewhere later: the answer must not depend on what was processed in between
    order = order + rng.sample(order, len(order))
    for i in order:
        print(json.dumps({"key": items[i]["key"], "val": run_item(items[i])}))


if __name__ == "__main__":
    main()
