#!/usr/bin/env python3
"""Entry point of every registered check:  python harness/check.py --property Cxx --tier quick|thorough
(see engine.py for the exit-code policy)."""
from __future__ import annotations
import argparse, json, os, random, sys, traceback

HERE = os.path.dirname(os.path.abspath(__file__))
sys.path.insert(0, HERE)
os.environ.setdefault("TUCAN_VERIF", "1")
os.environ.setdefault("PYTHONHASHSEED", "0")
sys.path.insert(0, os.environ.get("TUCAN_REPO", "/repo"))      # the working tree under test

import tlc
from engine import Outcome


def main():
    ap = argparse.ArgumentParser()
    ap.add_argument("--property", required=True)
    ap.add_argument("--tier", default=os.environ.get("VERIF_TIER", "quick"), choices=["quick", "thorough"])
    ap.add_argument("--replay")
    a = ap.parse_args()
    seed = int(os.environ.get("VERIF_SEED", "0") or 0)
    pid = a.property.upper()
    try:
        import checks
        if a.replay:
            return checks.replay(pid, a.replay)
        fn = checks.REGISTRY.get(pid)
        if fn is None:
            print(f"no check registered for {pid}")
            return 2
        out = Outcome(pid, a.tier, seed)
        fn(out, a.tier, random.Random(seed * 1000003 + int(pid[1:])))
        return out.finish(rule=out.extra.pop("rule", ""))
    except tlc.MachineryError as ex:
        print("MACHINERY-ERROR:", ex)
        return 2
    except Exception:
        traceback.print_exc()
        print("MACHINERY-ERROR: unexpected exception in the harness")
        return 2


if __name__ == "__main__":
    sys.exit(main())
