"""Running TLC and reading what it says.  Exit-code policy of the harness: a TLC run that cannot be
interpreted (crash, parse error, timeout) raises MachineryError -> exit 2, never a verdict."""
from __future__ import annotations
import json, os, re, shutil, subprocess, tempfile, time, concurrent.futures as cf

SPEC_DIR = os.path.normpath(os.path.join(os.path.dirname(os.path.abspath(__file__)), "..", "spec"))
JAVA_CP = "/opt/veriftools/tla/tla2tools.jar:/opt/veriftools/tla/CommunityModules-deps.jar"
NCPU = os.cpu_count() or 4


class MachineryError(Exception):
    pass


class TlcResult:
    def __init__(self, rc, out, wall):
        self.rc, self.out, self.wall = rc, out, wall
        self.generated = self.distinct = self.depth = 0
        for m in re.finditer(r"(\d+) states generated, (\d+) distinct states found", out):
            self.generated, self.distinct = int(m.group(1)), int(m.group(2))
        m = re.search(r"The depth of the complete state graph search is (\d+)", out)
        if m:
            self.depth = int(m.group(1))
        m = re.search(r"Error: Invariant (\S+) is violated", out)
        self.violated_invariant = m.group(1) if m else None
        if not m:
            m = re.search(r"Error: Action property (\S+) is violated", out)
            self.violated_invariant = m.group(1) if m else None
        self.postcondition_failed = "ostcondition" in out and ("violated" in out or "false" in out.lower()) and rc != 0
        self.printed = _printed(out)
        self.coverage = _coverage(out)

    @property
    def ok(self):
        return self.rc == 0

    def error_text(self, limit=4000):
        i = self.out.find("Error:")
        return self.out[i:i + limit] if i >= 0 else self.out[-limit:]


def _printed(out):
    """values printed with PrintT(ToJson(x)) arrive as one JSON string literal per line"""
    vals = []
    for line in out.splitlines():
        line = line.strip()
        if len(line) >= 2 and line[0] == '"' and line[-1] == '"':
            try:
                inner = json.loads(line)
            except Exception:
                continue
            try:
                vals.append(json.loads(inner))
            except Exception:
                vals.append(inner)
    return vals


def _coverage(out):
    """per-action counts from `-coverage`: {action: [distinct, generated]} (last report wins)"""
    cov = {}
    for m in re.finditer(r"^<(\w+) line \d+, col \d+ to line \d+, col \d+ of module (\w+)>: (\d+):(\d+)", out, re.M):
        cov[m.group(1)] = [int(m.group(3)), int(m.group(4))]
    return cov


def run(module, cfg, env=None, workers=1, extra=(), timeout=3600, xss="512m", heap=None, coverage=False,
        simulate=None, depth=None, seed=None, deque=False):
    """cfg: text of the configuration file (written to a scratch dir) or a path inside spec/."""
    meta = tempfile.mkdtemp(prefix="tlc_")
    try:
        if "\n" in cfg or not cfg.endswith(".cfg"):
            cfg_path = os.path.join(meta, module + ".cfg")
            open(cfg_path, "w").write(cfg)
        else:
            cfg_path = cfg if os.path.isabs(cfg) else os.path.join(SPEC_DIR, cfg)
        jopts = ["-XX:+UseParallelGC", "-Xss" + xss]
        if heap:
            jopts.append("-Xmx" + heap)
        if deque:
            jopts.append("-Dtlc2.tool.queue.IStateQueue=StateDeque")
        cmd = ["java", *jopts, "-cp", JAVA_CP, "tlc2.TLC", "-config", cfg_path, "-metadir", os.path.join(meta, "states"),
               "-noGenerateSpecTE", "-workers", str(workers)]
        if coverage:
            cmd += ["-coverage", "1"]
        if simulate:
            cmd += ["-simulate", simulate]
        if depth:
            cmd += ["-depth", str(depth)]
        if seed is not None:
            cmd += ["-seed", str(seed)]
        cmd += list(extra) + [module + ".tla"]
        e = dict(os.environ)
        e.pop("JAVA_TOOL_OPTIONS", None)
        if env:
            e.update({k: str(v) for k, v in env.items()})
        t0 = time.time()
        try:
            p = subprocess.run(cmd, cwd=SPEC_DIR, env=e, capture_output=True, text=True, timeout=timeout)
        except subprocess.TimeoutExpired as ex:
            raise MachineryError(f"TLC timed out after {timeout}s on {module}") from ex
        res = TlcResult(p.returncode, p.stdout + p.stderr, time.time() - t0)
        # 0 = ok, 12 = safety violation, 13 = liveness, 10 = assumption, 11 = deadlock; anything else is machinery
        if res.rc not in (0, 10, 11, 12, 13):
            raise MachineryError(f"TLC failed on {module} (rc={res.rc}):\n{res.error_text()}")
        if res.rc == 10:
            raise MachineryError(f"TLC: assumption failed in {module}:\n{res.error_text()}")
        return res
    finally:
        shutil.rmtree(meta, ignore_errors=True)


def run_sharded(module, cfg, cases, shards=None, env=None, env_key="CASES", timeout=3600, **kw):
    """Validate `cases` (a list of JSON-able records, one trace each) with `shards` TLC processes in parallel.
    Returns the list of TlcResult (one per shard, in shard order)."""
    if not cases:
        return []
    shards = max(1, min(shards or NCPU, len(cases)))
    if "heap" not in kw or not kw["heap"]:
        # the JVM's default maximum heap is a quarter of the machine's memory PER PROCESS: sixteen processes that each postpone their
        # collections until then exhaust it (the kernel then kills one: rc -9).  Share what is available now among the shards.
        try:
            avail_kb = next(int(l.split()[1]) for l in open("/proc/meminfo") if l.startswith("MemAvailable:"))
            kw["heap"] = "%dm" % max(1500, int(0.7 * avail_kb / 1024 / shards))
        except Exception:
            pass
    tmp = tempfile.mkdtemp(prefix="cases_")
    try:
        paths = []
        for k in range(shards):
            part = cases[k::shards]
            path = os.path.join(tmp, f"shard{k}.ndjson")
            with open(path, "w") as f:
                for c in part:
                    f.write(json.dumps(c) + "\n")
            paths.append(path)
        with cf.ThreadPoolExecutor(shards) as ex:
            futs = [ex.submit(run, module, cfg, dict(env or {}, **{env_key: p}), 1, timeout=timeout, **kw) for p in paths]
            return [f.result() for f in futs]
    finally:
        shutil.rmtree(tmp, ignore_errors=True)


def sany(module):
    p = subprocess.run(["java", "-cp", JAVA_CP, "tla2sany.SANY", module + ".tla"], cwd=SPEC_DIR,
                       capture_output=True, text=True)
    out = p.stdout + p.stderr
    bad = p.returncode != 0 or re.search(r"\*\*\* Errors|Parse Error|Fatal error|Could not find module", out)
    return (not bad), out
