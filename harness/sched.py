"""A deterministic cooperative scheduler for threads running library code: exactly one thread is runnable at a time;
a sys.settrace line hook inside tucan (and, on request, antlr4) frames counts line events and hands control over
at the points a schedule names.  A schedule is a list of (thread index, number of line events | None = to completion)."""
from __future__ import annotations
import sys, threading, collections


class Sched:
    def __init__(self, plan, trace_dirs=("/tucan/",)):
        self.plan = list(plan)
        self.cv = threading.Condition()
        self.cur = None
        self.steps = collections.Counter()
        self.done = set()
        self.budget = None
        self.trace_dirs = trace_dirs

    def _advance(self):
        while self.plan:
            t, n = self.plan.pop(0)
            if t in self.done:
                continue
            self.cur, self.budget = t, n
            self.cv.notify_all()
            return
        rem = sorted(set(self.threads) - self.done)
        self.cur, self.budget = (rem[0], None) if rem else (None, None)
        self.cv.notify_all()

    def tracer(self, idx):
        def local(frame, event, arg):
            if event == "line":
                with self.cv:
                    self.steps[idx] += 1
                    if self.budget is not None:
                        self.budget -= 1
                        if self.budget <= 0:
                            self._advance()
                    while self.cur != idx:
                        self.cv.wait()
            return local

        def glob(frame, event, arg):
            fn = frame.f_code.co_filename
            if any(d in fn for d in self.trace_dirs):
                return local
            return None
        return glob

    def run(self, fns):
        self.threads = list(range(len(fns)))
        res = [None] * len(fns)

        def body(i):
            with self.cv:
                while self.cur != i:
                    self.cv.wait()
            sys.settrace(self.tracer(i))
            try:
                res[i] = ("ok", fns[i]())
            except BaseException as e:  # noqa
                res[i] = ("exc", type(e).__name__)
            finally:
                sys.settrace(None)
                with self.cv:
                    self.done.add(i)
                    self._advance()
        ts = [threading.Thread(target=body, args=(i,)) for i in self.threads]
        for t in ts:
            t.start()
        with self.cv:
            self._advance()
        for t in ts:
            t.join()
        return res, dict(self.steps)
