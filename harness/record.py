"""Recording sessions of the real library as event logs for spec/Trace_Tucan.tla.

A Session owns object ids, tags every graph it introduces (unique per-atom / per-bond tags so that renamings can
be read off results without trusting any library mapping), calls the public API and logs one event per call --
at return, also on the error path.  Internal module-level functions are wrapped from outside when they exist
(partition_molecule_by_attribute: one record per refinement round); a refactor that removes them only lowers
the resolution of the log."""
from __future__ import annotations
import copy, itertools, os, random
import networkx as nx

os.environ.setdefault("TUCAN_VERIF", "1")
import tucan.canonicalization as tc
import tucan.serialization as tser
import tucan.graph_utils as tgu
from tucan.parser import parser as tparser
from project import project as _project, dense, TAG, ETAG


def project(g, **kw):
    """the projection never raises: whatever is not a molecule graph with labels 0..n-1 has no record"""
    try:
        if not isinstance(g, nx.Graph):
            return {"bad": "not a networkx graph: %r" % type(g).__name__}
        return _project(g, **kw)
    except Exception as ex:  # noqa
        return {"bad": "projection failed: %s: %s" % (type(ex).__name__, ex)}

_tagctr = itertools.count(1)


class CallTimeout(BaseException):
    pass


def guarded(fn, seconds=120):
    """run a library call; in the main thread a call that does not return within `seconds` is interrupted
    (a loop that never ends must not hang the check)"""
    import signal, threading
    if threading.current_thread() is not threading.main_thread():
        return fn()

    def onalarm(signum, frame):
        raise CallTimeout()
    old = signal.signal(signal.SIGALRM, onalarm)
    signal.setitimer(signal.ITIMER_REAL, seconds)
    try:
        return fn()
    finally:
        signal.setitimer(signal.ITIMER_REAL, 0)
        signal.signal(signal.SIGALRM, old)


class debug_logging:
    """the embedding application has switched logging to DEBUG (root logger, no output)"""

    def __enter__(self):
        import logging
        self.root = logging.getLogger()
        self.level = self.root.level
        self.handler = logging.NullHandler()
        self.root.addHandler(self.handler)
        self.root.setLevel(logging.DEBUG)
        return self

    def __exit__(self, *a):
        self.root.setLevel(self.level)
        self.root.removeHandler(self.handler)


def tag_graph(g):
    """attach unique tags in place (driver-owned objects only)"""
    for a in g.nodes:
        g.nodes[a][TAG] = next(_tagctr)
    for a, b in g.edges:
        g.edges[a, b][ETAG] = next(_tagctr)
    return g


def _render_graph_level(g):
    """rendering of the graph-level attribute dictionary (Graph.graph), nested containers included"""
    try:
        return repr(sorted((str(k), repr(v)) for k, v in g.graph.items()))
    except Exception:
        return "?"


class PartitionSpy:
    """collects the partition vector (by label of the graph passed in) after each call of
    partition_molecule_by_attribute while active"""

    def __init__(self):
        self.parts = None
        self.orig = getattr(tc, "partition_molecule_by_attribute", None)

    def __enter__(self):
        if self.orig is None:
            return self
        self.parts = []

        def spy(m, attribute):
            res = self.orig(m, attribute)
            try:
                self.parts.append([res.nodes[a]["partition"] for a in sorted(res.nodes)])
            except Exception:
                self.parts = None
            return res
        tc.partition_molecule_by_attribute = spy
        return self

    def __exit__(self, *a):
        if self.orig is not None:
            tc.partition_molecule_by_attribute = self.orig


class Session:
    def __init__(self, sid, note=""):
        self.id = sid
        self.ev = []
        self.objs = {}          # object id -> the live networkx object
        self.prov = {}          # canonicalized object id -> copy of the graph that was handed to canonicalize_molecule
        self._next = 1
        self.note = note

    def record(self):
        return {"id": self.id, "ev": self.ev, "note": self.note}

    def _new(self, g):
        k = self._next
        self._next += 1
        self.objs[k] = g
        return k

    # --- introducing objects
    def input(self, g, tag=True):
        if tag:
            tag_graph(g)
        k = self._new(g)
        pr = project(g)
        if "bad" in pr:
            raise RuntimeError("driver produced an object the projection cannot state: " + pr["bad"])
        self.ev.append({"op": "input", "obj": k, "g": pr})
        return k

    def build(self, atom_attrs, bond_attrs):
        """graph_from_molecule on the caller's dictionaries (which it may update in place); the log states them as they were"""
        from project import render_attrs, fingerprint, MEANINGFUL
        keys = list(atom_attrs)
        pos = {k: i for i, k in enumerate(keys)}
        atoms = []
        for k in keys:
            d = atom_attrs[k]
            atoms.append({"z": fingerprint(d.get("atomic_number", 0)), "m": fingerprint(d.get("mass", 0)), "r": fingerprint(d.get("rad", 0)),
                          "attrx": render_attrs(d, skip=("partition", "invariant_code", TAG))})
        bonds = []
        for (a, b), d in bond_attrs.items():
            lo, hi = sorted((pos[a], pos[b]))
            bonds.append([lo, hi, render_attrs(d)])
        try:
            g = guarded(lambda: tgu.graph_from_molecule(atom_attrs, bond_attrs), 120)
        except BaseException as ex:  # noqa
            self.ev.append({"op": "raised", "call": "graph_from_molecule", "clause": "R:graph_from_molecule-raised-" + type(ex).__name__})
            return None
        pr = project(g)
        if "bad" in pr:
            self.ev.append({"op": "raised", "call": "graph_from_molecule", "clause": "R:graph_from_molecule-returned-something-unprojectable"})
            return None
        k = self._new(g)
        self.ev.append({"op": "build", "obj": k, "atoms": atoms, "bonds": bonds, "g": pr})
        # tags for later calls (same graph, attributes added)
        tag_graph(g)
        self.ev.append({"op": "derive", "obj": self._new(g), "from": k, "perm": list(range(g.number_of_nodes())), "kind": "nonidentity", "g": project(g)})
        return self._next - 1

    def derive(self, src, g2, perm, kind="relabel"):
        """g2 is claimed to be objs[src] with label i renamed to perm[i] (checked by the spec)"""
        k = self._new(g2)
        self.ev.append({"op": "derive", "obj": k, "from": src, "perm": list(perm), "kind": kind, "g": project(g2)})
        return k

    def same(self, a, b, perm):
        self.ev.append({"op": "same", "a": a, "b": b, "perm": list(perm)})

    def aut(self, k, perm):
        self.ev.append({"op": "aut", "obj": k, "perm": list(perm)})

    # --- library calls
    def canon(self, k, spy=True):
        g = self.objs[k]
        before = project(g)
        if "bad" in before:          # an earlier call damaged the object (already reported): nothing more can be said about it
            return None
        gbefore = _render_graph_level(g)
        with PartitionSpy() as ps:
            try:
                res = guarded(lambda: tc.canonicalize_molecule(g), 900)
            except BaseException as ex:  # noqa
                self.ev.append({"op": "raised", "call": "canonicalize_molecule", "arg": k,
                                "clause": "C15:canonicalize_molecule-raised-" + type(ex).__name__, "n": before.get("n", 0)})
                return None
        after = project(g)
        pr = project(res)
        if "bad" in after or after["labs"] != before["labs"]:
            self.ev.append({"op": "raised", "call": "canonicalize_molecule", "arg": k,
                            "clause": "C12:canonicalize-mutated-its-argument(atoms-renamed-or-removed)"})
            return None
        if _render_graph_level(g) != gbefore:
            self.ev.append({"op": "raised", "call": "canonicalize_molecule", "arg": k,
                            "clause": "C12:canonicalize-mutated-its-argument(graph-level-attributes)"})
        if "bad" in pr:
            self.ev.append({"op": "raised", "call": "canonicalize_molecule", "arg": k,
                            "clause": "C12:result-not-numbered-0..n-1"})
            return None
        r = self._new(res)
        self.prov[r] = copy.deepcopy(g)
        e = {"op": "canon", "arg": k, "ret": r, "g": pr, "before": before, "after": after}
        if spy and ps.parts:
            e["parts"] = ps.parts
        self.ev.append(e)
        return r

    def ser(self, k, wit=None, nowit=False, raw=False):
        """raw: the graph is not a result of canonicalize_molecule (its string is not the molecule's identifier)"""
        g = self.objs[k]
        before = project(g)
        if "bad" in before:
            return None
        try:
            s = guarded(lambda: tser.serialize_molecule(g), 900)
        except BaseException as ex:  # noqa
            self.ev.append({"op": "raised", "call": "serialize_molecule", "arg": k,
                            "clause": "C15:serialize_molecule-raised-" + type(ex).__name__, "n": before.get("n", 0)})
            return None
        if not isinstance(s, str):
            self.ev.append({"op": "raised", "call": "serialize_molecule", "arg": k, "clause": "C05:serialize_molecule-did-not-return-a-string"})
            return None
        after = project(g, keep_scratch=False)
        if "bad" in after or after["labs"] != before["labs"]:
            self.ev.append({"op": "raised", "call": "serialize_molecule", "arg": k,
                            "clause": "C12:serialize-changed-atom-set-or-order(atoms-renamed-or-removed)"})
            return s
        e = {"op": "serraw" if raw else "ser", "arg": k, "ret": s, "before": before, "after": after}
        if wit is None and not nowit and not raw:
            wit, decided = propose_witness(self.prov_graph(k), s)
            if wit is None and decided:
                e["nowit"] = True
        if wit is not None:
            e["wit"] = wit
        self.ev.append(e)
        full = project(g)
        if "bad" not in full and full != before:
            # scratch data was left on the argument (allowed): the session's copy is refreshed, the molecule is the same
            self.ev.append({"op": "touch", "obj": k, "g": full})
        return s

    def prov_graph(self, k):
        return self.prov.get(k, self.objs[k])

    def parse(self, s, of=None, sid=None, expect_ok=None):
        e = {"op": "parse", "s": s}
        try:
            p = tparser.graph_from_tucan(s)
        except BaseException as ex:  # noqa
            e["exc"] = type(ex).__name__
            if of is not None:
                e["of"] = of
            self.ev.append(e)
            return None
        pr = project(p)
        if "bad" in pr or not dense(pr):
            e["exc"] = "BadGraph:" + pr.get("bad", "labels are not 0..n-1")
            self.ev.append(e)
            return None
        k = self._new(p)
        e["ret"], e["g"] = k, pr
        if sid is not None:
            e["sid"] = sid
        if of is not None:
            w, decided = witness_between(self.prov_graph(of), p)
            if w is not None:
                e["of"], e["wit"] = of, w
            elif decided:
                e["of"], e["nowit"] = of, True
        self.ev.append(e)
        tag_graph(p)        # so that later calls on the parsed graph are traceable
        self.ev.append({"op": "derive", "obj": self._new(p), "from": k, "perm": list(range(p.number_of_nodes())),
                        "kind": "nonidentity", "g": project(p)})
        return self._next - 1

    def permute(self, k, seed):
        g = self.objs[k]
        if k in getattr(self, "_hung", set()):
            return None                      # this call already failed to return once: reported, not repeated
        before = project(g)
        try:
            res = guarded(lambda: tgu.permute_molecule(g, random_seed=seed), 6)
        except BaseException as ex:  # noqa
            if isinstance(ex, CallTimeout):
                self._hung = getattr(self, "_hung", set()) | {k}
            self.ev.append({"op": "raised", "call": "permute_molecule", "arg": k,
                            "clause": ("C16:permute_molecule-did-not-return" if isinstance(ex, CallTimeout)
                                       else "C16:permute_molecule-raised-" + type(ex).__name__)})
            return None
        after = project(g)
        pr = project(res)
        if "bad" in pr:
            self.ev.append({"op": "raised", "call": "permute_molecule", "arg": k, "clause": "C16:label-set-changed"})
            return None
        r = self._new(res)
        self.ev.append({"op": "permute", "arg": k, "ret": r, "seed": repr(seed), "g": pr, "before": before, "after": after})
        return r

    # --- molfile texts
    def read(self, lines, fmt, pfx, mol=None, floats=None, eol="\n", via_file=False, via_path=None, suffix=".mol"):
        from tucan.io import graph_from_molfile_text, graph_from_file
        import textgen
        k = self._next
        self._next += 1
        self.last_read = k          # the text's id (also when the reader rejects it)
        e = {"op": "read", "obj": k, "fmt": fmt, "pfx": pfx, "lines": list(lines), "floats": dict(floats or {})}
        e["floats"].pop("", None)
        if mol is not None:
            e["mol"] = mol
        text = eol.join(lines) + eol
        try:
            if via_path is not None:
                g = graph_from_file(via_path)           # the caller put the text there
            elif via_file:
                import tempfile
                e["suffix"] = suffix
                with tempfile.NamedTemporaryFile("w", suffix=suffix, delete=False, newline="", encoding="utf-8") as f:
                    f.write(text)
                try:
                    g = graph_from_file(f.name)
                finally:
                    os.unlink(f.name)
            else:
                g = graph_from_molfile_text(text)
        except BaseException as ex:  # noqa
            e["exc"] = type(ex).__name__
            self.objs[k] = None
            self.ev.append(e)
            return None
        pr = project(g)
        if "bad" in pr or not dense(pr):
            e["exc"] = "BadGraph:" + pr.get("bad", "labels are not 0..n-1")
            self.objs[k] = None
            self.ev.append(e)
            return None
        self.objs[k] = g
        e["g"] = pr
        self.ev.append(e)
        # tag the object for later calls (same graph, attributes added)
        tag_graph(g)
        self.ev.append({"op": "derive", "obj": self._new(g), "from": k, "perm": list(range(g.number_of_nodes())),
                        "kind": "nonidentity", "g": project(g)})
        self.read_ids = getattr(self, "read_ids", {})
        self.read_ids[self._next - 1] = k
        return self._next - 1

    def sametext(self, a, b, perm, pfx, strict=False, samegraph=False):
        """a, b: ids returned by read(); the claim is verified by the spec on the DECODED molecules"""
        ids = getattr(self, "read_ids", {})
        ra, rb = ids.get(a, a), ids.get(b, b)
        self.ev.append({"op": "sametext", "a": ra, "b": rb, "perm": list(perm), "pfx": pfx, "strict": strict, "samegraph": samegraph})

    def distincttext(self, a, b):
        ids = getattr(self, "read_ids", {})
        ra, rb = ids.get(a, a), ids.get(b, b)
        self.ev.append({"op": "distincttext", "a": ra, "b": rb})

    def write(self, k, live=None, relabel=None, calc=False):
        """live: the graph actually handed to the writer when it is object k under another (wide / sparse) numbering
        `relabel` (label of k -> label of live); the log states everything in k's labels"""
        from tucan.io import graph_to_molfile
        g = self.objs[k]
        before = project(g)
        try:
            text = graph_to_molfile(live if live is not None else g, calc_coordinates=True) if calc else graph_to_molfile(live if live is not None else g)
        except BaseException as ex:  # noqa
            self.ev.append({"op": "raised", "call": "graph_to_molfile", "arg": k, "clause": "C09:graph_to_molfile-raised-" + type(ex).__name__})
            return None
        lines = text.splitlines()
        if len(lines) > 1:
            lines[1] = ""                           # the timestamp is the one thing that may differ between calls
        xyz6 = [[six_decimals(g.nodes[a].get(c, 0)) for c in ("x_coord", "y_coord", "z_coord")] for a in g.nodes]
        bonds = [[min(a, b), max(a, b), d.get("bond_type", 1)] for a, b, d in g.edges(data=True)]
        six = {}
        for l in "\n".join(lines).replace("-\nM  V30 ", "").split("\n"):     # continued lines joined (the format's rule)
            for t in l.split():
                if t not in six:
                    try:
                        six[t] = six_decimals_of_literal(t)
                    except Exception:
                        pass
        self.ev.append({"op": "write", "arg": k, "lines": lines, "xyz6": xyz6, "six": six, "bonds": bonds, "calc": bool(calc)})
        after = project(g)
        if "bad" not in before and "bad" not in after and after != before:
            self.ev.append({"op": "changed", "obj": k, "g": after, "by": "graph_to_molfile"})
        return lines

    def result(self, key, val, clause):
        self.ev.append({"op": "result", "key": key, "val": val, "clause": clause})


def six_decimals(v):
    """the value to six decimals, computed with exact decimal arithmetic (independent of the writer's formatting)"""
    import decimal
    with decimal.localcontext() as ctx:
        ctx.prec = 2000
        d = decimal.Decimal(float(v)).quantize(decimal.Decimal("0.000001"), rounding=decimal.ROUND_HALF_EVEN)
        return format(d, "f")


def six_decimals_of_literal(t):
    import decimal
    with decimal.localcontext() as ctx:
        ctx.prec = 2000
        d = decimal.Decimal(t)
        if not d.is_finite():
            raise ValueError(t)
        return format(d.quantize(decimal.Decimal("0.000001"), rounding=decimal.ROUND_HALF_EVEN), "f")


# ---------------------------------------------------------------- witnesses (proposed here, checked by TLC)
def _col(d):
    return (d.get("atomic_number"), d.get("mass", 0) or 0, d.get("rad", 0) or 0)


def _check_iso(g, h, w):
    if sorted(w) != list(range(g.number_of_nodes())) or g.number_of_nodes() != h.number_of_nodes():
        return False
    if any(_col(g.nodes[a]) != _col(h.nodes[w[a]]) for a in g.nodes):
        return False
    return {frozenset((w[a], w[b])) for a, b in g.edges} == {frozenset(e) for e in h.edges}


def _ranked(g):
    labs = sorted(g.nodes)
    if labs == list(range(len(labs))):
        return g
    return nx.relabel_nodes(g, {lab: i for i, lab in enumerate(labs)}, copy=True)


def witness_between(g, h, vf2_limit=400):
    """(w, decided): a colour- and bond-preserving bijection g -> h as a list (label a of g |-> w[a] of h) or None;
    decided = the search was complete (None then means: the graphs are not isomorphic).
    First proposal: line the two graphs up through the library's own canonical labelling (cheap, any size);
    fallback: networkx VF2.  Either way the specification re-checks the bijection."""
    n = g.number_of_nodes()
    if n != h.number_of_nodes():
        return None, True
    try:
        g, h = _ranked(g), _ranked(h)           # the session's records list atoms by rank of their label
    except Exception:
        return None, False
    try:
        gg, hh = g.copy(), h.copy()
        for x in gg.nodes:
            gg.nodes[x]["_w"] = x
        for x in hh.nodes:
            hh.nodes[x]["_w"] = x
        for gr in (gg, hh):
            for x in gr.nodes:
                gr.nodes[x].setdefault("partition", 0)
                gr.nodes[x]["invariant_code"] = _col(gr.nodes[x])
        kg, kh = tc.canonicalize_molecule(gg), tc.canonicalize_molecule(hh)
        back = {c: kh.nodes[c]["_w"] for c in kh.nodes}
        w = [None] * n
        for c in kg.nodes:
            w[kg.nodes[c]["_w"]] = back[c]
        if _check_iso(g, h, w):
            return w, True
    except Exception:
        pass
    if n <= vf2_limit:
        gm = nx.algorithms.isomorphism.GraphMatcher(g, h, node_match=lambda x, y: _col(x) == _col(y))
        try:
            iso = guarded(gm.is_isomorphic, 30)
        except CallTimeout:
            return None, False          # undecided within the budget (highly symmetric graphs): nothing is claimed
        if iso:
            m = gm.mapping
            return [m[a] for a in range(n)], True
        return None, True           # VF2 is complete: there is no colour-preserving bijection
    return None, False


def propose_witness(g, s):
    """bijection from the serialized graph g onto the atoms of the string s (numbered as the grammar says).
    The atoms of s are obtained with the library's parser only to *propose*; TLC checks against its own Denote."""
    try:
        p = tparser.graph_from_tucan(s)
    except BaseException:  # noqa
        return None, False
    return witness_between(g, p)


# ---------------------------------------------------------------- presentations of one molecule
def relabel(g, perm, rng=None, shuffle_order=True):
    """the same molecule with label a renamed to perm[a]; node and edge insertion order and bond orientation
    are re-drawn when rng is given.  All attributes are carried along."""
    nodes = [(perm[a], copy.deepcopy(g.nodes[a])) for a in g.nodes]
    edges = [(perm[a], perm[b], copy.deepcopy(d)) for a, b, d in g.edges(data=True)]
    if rng is not None and shuffle_order:
        edges = [(b, a, d) if rng.random() < 0.5 else (a, b, d) for a, b, d in edges]
        rng.shuffle(edges)
    nodes.sort(key=lambda t: t[0])      # library graphs list their atoms in label order (graph_from_molecule)
    h = nx.Graph()
    h.add_nodes_from(nodes)
    h.add_edges_from(edges)
    return h
