"""C10 (the parser accepts exactly the grammar and returns the denoted graph) and C11 (any valid spelling normalizes)."""
from __future__ import annotations
import copy, json, os, random, re
import gen, record, drivers, tlc
from record import Session
from checks import check, TRACE_CFG, validate_sessions, RULE


def grammar_cfg(spec, depth, alphabet, emit, invs, constraint):
    return (f"SPECIFICATION {spec}\nCONSTANTS Depth = {depth} Emit = {'TRUE' if emit else 'FALSE'}\n  Alphabet <- {alphabet}\n"
            + "".join(f"INVARIANT {i}\n" for i in invs) + (f"CONSTRAINT {constraint}\n" if emit else "") + "CHECK_DEADLOCK FALSE\n")


# ------------------------------------------------------------------ canonical strings as structures (driver side)
def structure(s):
    """[formula items], [tuples], [attribute blocks] of a string the LIBRARY emitted (used only to build respellings and edits;
    whether the results are sentences is judged by the specification)"""
    parts = s.split("/")
    F = [(m.group(1), int(m.group(2) or 1)) for m in re.finditer(r"([A-Z][a-z]?)(\d*)", parts[0])]
    U = [(int(a), int(b)) for a, b in re.findall(r"\((\d+)-(\d+)\)", parts[1] if len(parts) > 1 else "")]
    A = []
    if len(parts) > 2:
        for idx, body in re.findall(r"\((\d+):([^)]*)\)", parts[2]):
            A.append((int(idx), [(k, int(v)) for k, v in (p.split("=") for p in body.split(","))]))
    return F, U, A


def spell(F, U, A):
    s = "".join(f"{x}{c if c > 1 else ''}" for x, c in F) + "/" + "".join(f"({a}-{b})" for a, b in U)
    if A:
        s += "/" + "".join(f"({i}:" + ",".join(f"{k}={v}" for k, v in ps) + ")" for i, ps in A)
    return s


def blocks(F):
    """index ranges of the element blocks (atoms are numbered by increasing atomic number)"""
    items = sorted(F, key=lambda t: gen.Z[t[0]])
    out, start = [], 1
    for sym, c in items:
        out.append((start, start + c - 1))
        start += c
    return out


def respell_once(F, U, A, rng):
    """one meaning-preserving step; returns (F, U, A, map old index -> new index)"""
    n = sum(c for _, c in F)
    ident = {i: i for i in range(1, n + 1)}
    U, A = list(U), [(i, list(ps)) for i, ps in A]
    ops = []
    if U:
        ops += ["swap", "move", "dup"]
    if len(A) >= 2:
        ops += ["swapblocks"]
    if any(len(ps) == 2 for _, ps in A):
        ops += ["split", "swapprops"]
    if any(b > a for a, b in blocks(F)):
        ops += ["renumber", "renumber"]
    labelled_pairs = [(p, q) for a, b in blocks(F) for p in range(a, b + 1) for q in range(p + 1, b + 1)
                      if any(i == p for i, _ in A) and any(i == q for i, _ in A)]
    if labelled_pairs:
        ops += ["renumber-labelled"] * 3
    if not ops:
        return F, U, A, ident
    op = rng.choice(ops)
    if op == "swap":
        i = rng.randrange(len(U)); U[i] = (U[i][1], U[i][0])
    elif op == "move":
        t = U.pop(rng.randrange(len(U))); U.insert(rng.randint(0, len(U)), t)
    elif op == "dup":
        t = rng.choice(U); t = t if rng.random() < 0.5 else (t[1], t[0]); U.insert(rng.randint(0, len(U)), t)
    elif op == "swapblocks":
        i, j = rng.sample(range(len(A)), 2); A[i], A[j] = A[j], A[i]
    elif op == "split":
        i = rng.choice([k for k, (_, ps) in enumerate(A) if len(ps) == 2])
        idx, ps = A[i]
        A[i] = (idx, [ps[0]]); A.insert(rng.randint(0, len(A)), (idx, [ps[1]]))
    elif op == "swapprops":
        i = rng.choice([k for k, (_, ps) in enumerate(A) if len(ps) == 2]); A[i] = (A[i][0], A[i][1][::-1])
    elif op in ("renumber", "renumber-labelled"):
        if op == "renumber":
            a, b = rng.choice([(a, b) for a, b in blocks(F) if b > a])
            p, q = rng.sample(range(a, b + 1), 2)
        else:
            p, q = rng.choice(labelled_pairs)       # two labelled atoms of one element trade their numbers
        f = dict(ident); f[p], f[q] = q, p
        U = [(f[x], f[y]) for x, y in U]
        A = [(f[i], ps) for i, ps in A]
        return F, U, A, f
    return F, U, A, ident


def c11_session(sid, base, variants, rng):
    """variants: list of (string, imap as dict old->new w.r.t. base)"""
    S = Session(sid)
    S.ev.append({"op": "string", "sid": 1, "s": base})
    sids = [1]
    for k, (s2, m) in enumerate(variants, 2):
        n = len(m)
        S.ev.append({"op": "respell", "sid": k, "from": 1, "s": s2, "imap": [m[i + 1] - 1 for i in range(n)]})
        sids.append(k)
    strings = [base] + [v[0] for v in variants]
    first = None
    for sid_, s in zip(sids, strings):
        p = S.parse(s, sid=sid_)
        if p:
            c = S.canon(p)
            if c:
                out = S.ser(c)
                if first is None and out is not None:
                    first = (out, c)
    if first:                                   # applying the normalization twice
        p = S.parse(first[0], of=first[1])
        if p:
            c = S.canon(p)
            if c:
                S.ser(c)
    return S


def library_strings(rng, tier):
    pool = drivers.molecule_pool(rng, tier, n_random=60 if tier == "quick" else 500, nmax=8, corpus_n=20 if tier == "quick" else 233, corpus_cap=60)
    pool += drivers.special_molecules()
    pool += gen.two_label_alkanes(rng, 14 if tier == "quick" else 45)
    from tucan.canonicalization import canonicalize_molecule
    from tucan.serialization import serialize_molecule
    out = []
    for name, g in pool:
        try:
            out.append((name, serialize_molecule(canonicalize_molecule(g))))
        except Exception:
            pass
    return out


@check("C11")
def c11(out, tier, rng):
    depth = 2 if tier == "quick" else 3
    r = out.design("MC_Grammar", grammar_cfg("RSpecG", depth, "SmallAlphabet", True, ("RespellingKeepsMolecule", "NormalForm", "BaseIsNormal"), "EmitRespelling"),
                   expect_depth=depth + 1, workers=1, label=f"MC_Grammar RSpecG Depth={depth}")
    items = [p for p in r.printed if isinstance(p, dict) and "base" in p]
    out.extra["spec_to_code_inputs"] = len(items)
    by_base = {}
    for it in items:
        by_base.setdefault(it["base"], []).append((it["s"], {i + 1: v for i, v in enumerate(it["imap"])}))
    ss = []
    for b, vs in by_base.items():
        seen, uniq = set(), []
        for v in vs:
            if v[0] not in seen and v[0] != b:
                seen.add(v[0]); uniq.append(v)
        if tier == "quick" and len(uniq) > 120:
            uniq = rng.sample(uniq, 120)
        for j in range(0, len(uniq), 6):
            ss.append(c11_session(f"spec-{len(ss)}", b, uniq[j:j + 6], rng))
    # code -> spec: respelling walks on strings the library emitted
    for name, s in library_strings(rng, tier):
        F, U, A = structure(s)
        if spell(F, U, A) != s:
            continue
        n = sum(c for _, c in F)
        variants = []
        for _ in range(4):
            f, u, a = F, U, A
            m = {i: i for i in range(1, n + 1)}
            for _ in range(rng.randint(1, 6)):
                f, u, a, step = respell_once(f, u, a, rng)
                m = {i: step[m[i]] for i in m}
            variants.append((spell(f, u, a), m))
        ss.append(c11_session("walk-" + name, s, variants, rng))
    for s in ss:
        out.count(("c11", s.ev[0]["s"]), nontrivial=True)
    v = validate_sessions(out, ss, "C11:", rl=0)
    for k, p in v.items():
        cl = [c for c in p.get("viol", []) if c.startswith(("C01:", "C03:not-a-fixed-point"))]
        if cl:
            rec = next(s.record() for s in ss if s.id == k)
            out.violations.append({"clause": "C11:spelling-changes-the-normal-form(" + cl[0] + ")", "case": k, "replay": out.write_replay(rec, cl)})
    out.extra["rule"] = ("cases = sessions around one base string: respellings (from the bounded model's behaviours and from seeded walks on strings the library "
                         "emitted), each verified by the specification on the denotations through the index map, then parsed, canonicalized and "
                         "serialized by the real code; distinct = distinct base strings")
    out.assumptions += ["respellings are produced by the driver / the model and verified by TLC (Respell action) before their normal forms are compared"]


# ---------------------------------------------------------------------------------------------- C10
def structured_edits(s, rng):
    """strings around a library-emitted sentence: valid respellings and invalidating edits that need more than one token"""
    F, U, A = structure(s)
    n = sum(c for _, c in F)
    out = [s]
    sp = lambda f=F, u=U, a=A: spell(f, u, a)
    if U:
        t = rng.choice(U)
        out += [sp(u=U + [t]), sp(u=U + [(t[1], t[0])]), sp(u=U + [(t[0], t[0])]), sp(u=[(n + 1, t[1])] + U), sp(u=U + [(t[0], n + 1)]),
                sp(u=[(t[0], n + 7)] + U), sp(u=U[::-1]), sp(u=U + [(0, t[1])])]
    if A:
        i, ps = rng.choice(A)
        k, v = ps[0]
        out += [sp(a=A + [(i, [(k, v)])]), sp(a=A + [(i, [(k, v + 1)])]), sp(a=[(i, ps + [(k, v)])] + [x for x in A if x[0] != i]),
                sp(a=A + [(n + 1, [("mass", 5)])]), sp(a=[(i, ps[::-1])] + [x for x in A if x[0] != i]), sp(a=A[::-1]),
                sp(a=A + [(i, [("rad" if k == "mass" else "mass", 3)])]) if len(ps) == 1 else sp(a=A)]
    if n >= 1:
        # values the grammar allows whatever the element: a mass below the atomic number on the heaviest atom, mass 1, large values
        out += [sp(a=[x for x in A if x[0] != n] + [(n, [("mass", 1)])]), sp(a=[x for x in A if x[0] != 1] + [(1, [("mass", 1)])] + [x for x in A if False]),
                sp(a=[x for x in A if x[0] != n] + [(n, [("mass", 999), ("rad", 9)])])]
    if not A:
        out += [s + "/", s + "/(1:mass=2)", s + "/(1:mass=2,mass=2)", s + "/(1:mass=2)(1:mass=2)", s + "/(1:mass=2,rad=1)(1:rad=1)", s + f"/({n + 1}:rad=1)",
                s + "/(1:mass=0)", s + "/(1:mass=02)", s + "/(1:chg=1)"]
    # formula: Hill order violations, count 1, leading zero
    if len(F) >= 2:
        i = rng.randrange(len(F) - 1)
        G = list(F); G[i], G[i + 1] = G[i + 1], G[i]
        out.append(sp(f=G))
    out.append(sp(f=[(F[0][0], 1)] + F[1:]).replace(F[0][0], F[0][0] + "1", 1) if F else s)
    out.append(s.replace("/", "//", 1)); out.append(s + ")"); out.append(" " + s); out.append(s + "\n"); out.append(s.lower())
    # character-level damage
    for _ in range(6):
        k = rng.randrange(len(s))
        kind = rng.choice(["del", "ins", "rep", "swap"])
        c = rng.choice("CHNOlaesm()-:,=/0123456789 xX")
        if kind == "del":
            out.append(s[:k] + s[k + 1:])
        elif kind == "ins":
            out.append(s[:k] + c + s[k:])
        elif kind == "rep":
            out.append(s[:k] + c + s[k + 1:])
        elif k + 1 < len(s):
            out.append(s[:k] + s[k + 1] + s[k] + s[k + 2:])
    return out


def parse_sessions(strings, prefix, rng, per=40, history=False):
    ss = []
    strings = list(strings)
    for j in range(0, len(strings), per):
        S = Session(f"{prefix}-{j // per}")
        for s in strings[j:j + per]:
            p = S.parse(s)
            if history and p and rng.random() < 0.5:
                # edit the returned graph in place and ask again: the parser must answer from the string, not from a cache
                g = S.objs[p]
                if g.number_of_nodes() >= 1:
                    a = rng.choice(list(g.nodes))
                    g.nodes[a]["mass"] = 99
                    if g.number_of_nodes() >= 2:
                        x, y = rng.sample(list(g.nodes), 2)
                        if g.has_edge(x, y):
                            g.remove_edge(x, y)
                        else:
                            g.add_edge(x, y)
                    S.parse(s)
        ss.append(S)
    return ss


def parse_in_directory_sessions(rng):
    """what the parser accepts is a matter of the string alone: the same strings parsed in a working directory that holds files and
    directories named like them (a string is not a path)"""
    import tempfile, shutil
    S = Session("parse-next-to-files")
    names = ["notes", "ethanol.tucan", "CH4/(1-5)(2-5)(3-5)(4-5)", "C2/(1-2)", "Xe/", "C2H6O", "H2O/(1-3)(2-3)/(1:mass=2)"]
    d = tempfile.mkdtemp(prefix="c10_")
    old = os.getcwd()
    try:
        for nm in names:
            path = os.path.join(d, nm.rstrip("/"))
            if nm.endswith("/"):
                os.makedirs(path, exist_ok=True)
                continue
            os.makedirs(os.path.dirname(path), exist_ok=True)
            with open(path, "w") as f:
                f.write(rng.choice(["Xe/", "C2H6O/(1-7)(2-7)(3-7)(4-8)(5-8)(6-9)(7-8)(8-9)", "He2/\n"]))
        os.chdir(d)
        for nm in names + [os.path.join(d, "notes"), "./notes"]:
            S.parse(nm)
    finally:
        os.chdir(old)
        shutil.rmtree(d, ignore_errors=True)
    return [S]


def foreign_character_strings(rng):
    """every printable ASCII character that is not part of any token, put somewhere into a sentence"""
    import string
    token_chars = set(string.ascii_letters + string.digits + "/()-:=,")
    base = ["CH4/(1-5)(2-5)(3-5)(4-5)", "C2H6O/(1-7)(2-7)(3-7)(4-8)(5-8)(6-9)(7-8)(8-9)/(1:mass=2)(9:rad=2)", "Xe/", "ClH/(1-2)"]
    out = []
    for ch in sorted(set(string.printable) - token_chars):
        s = rng.choice(base)
        k = rng.randint(0, len(s))
        out += [s[:k] + ch + s[k:], ch + s, s + ch]
    return out


@check("C10")
def c10(out, tier, rng):
    alph = "SmallAlphabet" if tier == "quick" else "FullAlphabet"
    r = out.design("MC_Grammar", grammar_cfg("ESpecG", 0, alph, True, ("ReaderConsistent",), "EmitString"), expect_depth=2, workers=1,
                   label=f"MC_Grammar ESpecG {alph}")
    strings = sorted({p["s"] for p in r.printed if isinstance(p, dict) and "s" in p and "base" not in p})
    out.extra["spec_to_code_inputs"] = len(strings)
    if tier == "quick" and len(strings) > 6000:
        strings = rng.sample(strings, 6000)
    ss = parse_sessions(strings, "edits", rng, per=60)
    more = []
    for name, s in library_strings(rng, tier):
        more += structured_edits(s, rng)
    # boundary strings: prefix-sharing symbols, Hill order with and without carbon, counts, empty parts
    hill = ["C", "H"] + sorted(s for s in gen.SYMBOLS if s not in ("C", "H"))
    noc = sorted(s for s in gen.SYMBOLS if s != "C")
    more += ["".join(hill) + "/(1-118)(2-117)", "".join(noc) + "/", "".join(f"{s}2" for s in hill) + "/(1-236)/(236:mass=300)(1:rad=3)",
             "".join(hill[:60]) + "/(1-60)", "CH4/\n(1-5)", "CH4/(1-5)\n", "C\nH4/"]
    more += ["C12/(1-1\u0662)", "C12/(1-\u0661\u0662)", "C12/(1-1\uff12)", "C22/(2\u0968-1)", "C12//(1\u0e52:mass=2)", "C12//(1:mass=1\u0663)", "C1\u0662/",
             "C2/(1-9223372036854775809)", "C2//(18446744073709551616:mass=13)", "C2/(1-2147483648)", "C2/(4294967297-1)", "C2/(1-9007199254740993)",
             "C2//(1:mass=99999999)", "C2//(1:mass=10000000,rad=12345678)", "C2/(1-9223372036854775807)"]
    more += ["C257/(257-257)", "C300/(1-2)(299-299)", "C999/(999-999)", "C1000/(1000-1000)", "C300/(257-258)(258-257)", "C300//(257:mass=257,mass=257)",
             "C300//(300:mass=300)(300:mass=300)", "C300//(300:mass=300)(300:rad=300)", "C2/(1-2)\t", "\tC2/(1-2)", "C2/(1-2)\r\n", "C2/(1-2)\x0b", "\xa0C2/(1-2)",
             "C2/(1-2)\u2003", "C2 /(1-2)", "C2/ (1-2)"]
    more += ["/(1-2)", "//(1:mass=2)", "/(10-11)/(12:rad=2)", "/(1-1)", "Xe//(1:mass=53)", "Og2/(1-2)/(2:mass=100)", "CHCl3/(1-2)(2-3)(2-4)(2-5)/(1:mass=2)",
             "ClH/(1-2)/(1:mass=2)", "C2H2/(1-3)(2-4)(3-4)/(1:mass=3)", "/", "//", "C/", "H/", "CH/", "HC/", "CHCl/", "CClH/", "ClH/", "HCl/", "C2/(1-2)", "C1/", "C01/", "C10/", "C2H/(1-2)(1-3)", "Cl2/(1-2)", "CCl/(1-2)",
             "CnCo/(1-2)", "CoCn/", "CCn/", "CnC/", "HHe/", "HeH/", "HeHf/", "NNa/", "NaN/", "NaNb/", "NbNa/", "H2/(1-2)(2-1)", "H2/(1-2)(1-2)", "H2/(2-1)",
             "H2/(1-3)", "H2/(1-1)", "H/(1-1)", "H2//(1:mass=2,rad=1)", "H2//(1:rad=1,mass=2)", "H2//(1:mass=2)(1:rad=1)", "H2//(1:mass=2)(2:mass=2)",
             "H2//(3:mass=2)", "H2//(1:mass=2,mass=3)", "H2//(1:mass=2)(1:mass=2)", "Xe//(1:mass=129,mass=129)", "CH4/(1-5)(2-5)(3-6)(4-5)", "CH2/(1-4)(2-3)",
             "C2H6O/(1-7)(2-7)(3-7)(4-8)(5-8)(6-9)(7-8)(8-9)", "C999/", "H2O", "", "C", "/C", "C/(1-2", "C2/(1 - 2)", "C2/(1-2) ", "C2/(1-2)/"]
    more += foreign_character_strings(rng)
    ss += parse_sessions(sorted(set(more)), "lib", rng, per=40, history=True)
    ss += parse_in_directory_sessions(rng)
    # numbers longer than the interpreter's integer / string conversion limit (4300 digits): still strings over the token alphabet
    ss += parse_sessions(["C2/(1-" + "9" * 4401 + ")", "C2/(1-2)/(1:mass=" + "7" * 4401 + ")", "C2/(" + "1" * 4400 + "-2)"], "huge-numbers", rng, per=10)
    for s in ss:
        for e in s.ev:
            if e["op"] == "parse":
                out.count(("c10", e["s"]), nontrivial=len(e["s"]) > 2)
    out.evaluations = sum(1 for s in ss for e in s.ev if e["op"] == "parse")
    validate_sessions(out, ss, "C10:", rl=0)
    out.extra["rule"] = ("cases = strings (every single-token insertion / deletion / replacement / transposition around the model's base sentences; "
                         "structured and character-level edits of strings the library emitted; boundary strings) parsed by the real parser; the "
                         "verdict, the exception type and the returned graph are compared by TLC with spec/Grammar.tla's Denote; distinct = distinct strings")
    out.assumptions += ["the lexer is specified by maximal munch over the EBNF terminals; the empty formula is a sentence of the EBNF"]
