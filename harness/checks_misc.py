"""C14 (determinism across processes, histories, threads), C15 (completion for every size / shape), C16 (permutation helper)."""
from __future__ import annotations
import copy, glob, itertools, hashlib, json, os, random, subprocess, sys, tempfile, threading, time
import networkx as nx
import gen, record, drivers, tlc, textgen, sched
from record import Session
from checks import check, TRACE_CFG, validate_sessions, RULE, count_sessions, enumerated_sessions, mc_cfg, library_refined_sessions
import c14_worker

HERE = os.path.dirname(os.path.abspath(__file__))


# ---------------------------------------------------------------------------------------------- C16
def dig(g):
    """digest of a permutation result: which atom (tag) got which label, with its chemically meaningful entries, in which listing
    order, and the bonds -- scratch data that another call left on the argument in between is not part of 'the same result'"""
    pr = record.project(g)
    if "bad" in pr:
        return "bad:" + pr["bad"][:40]
    core = {"n": pr["n"], "labs": pr["labs"], "order": pr["order"], "adj": pr["adj"], "atoms": [[a["tag"], a["mattr"]] for a in pr["atoms"]],
            "edges": [[e[0], e[1], e[3]] for e in pr["edges"]]}
    return hashlib.sha1(json.dumps(core, sort_keys=True).encode()).hexdigest()[:16]


@check("C16")
def c16(out, tier, rng):
    out.design("Permute", "MC_Permute.cfg" if tier == "quick" else "SPECIFICATION PSpec\nCONSTANTS N = 5\nINVARIANT Faithful\nINVARIANT Enforced\nINVARIANT CanChange\nCHECK_DEADLOCK FALSE\n",
               expect_depth=3, label="Permute N=4" if tier == "quick" else "Permute N=5")
    items, _ = drivers.spec_enumerated(3, "PaletteHDCO", limit=120 if tier == "quick" else None, seed=rng.random())
    out.extra["spec_to_code_inputs"] = len(items)
    pool = [(f"tlc{i}", g) for i, (g, _) in enumerate(items)]
    pool += drivers.molecule_pool(rng, tier, n_random=40 if tier == "quick" else 400, nmax=8, corpus_n=8 if tier == "quick" else 120)
    pool += drivers.special_molecules()
    seeds = [0.0, 0.1, 0.2, 0.3, 0.4, 0.5, 0.6, 0.7, 0.8, 0.9, 0.42, 0.999999, 0.01, 0.17, 0.84]
    ss = []
    for name, g in pool:
        S = Session("perm-" + name)
        for a, b in g.edges:
            g.edges[a, b].setdefault("bond_type", rng.choice([1, 2, 3]))
        for a in g.nodes:
            g.nodes[a]["_user"] = f"u{a}"
        o = S.input(g)
        args = [o]
        c = S.canon(o)                      # a canonical graph lists its atoms in another order than its labels
        if c:
            args.append(c)
        for arg in args:
            mine = rng.sample(seeds, 4 if tier == "quick" else 8)
            for sd in mine:
                r1 = S.permute(arg, sd)
                random.seed(rng.random()); [random.random() for _ in range(rng.randint(0, 5))]   # other users of the global generator
                if rng.random() < 0.5:
                    S.permute(arg, rng.choice(seeds))
                    if c and rng.random() < 0.3:
                        S.ser(c)
                r2 = S.permute(arg, sd)
                if r1 and r2:
                    key = f"permute|{arg}|{sd!r}"
                    S.result(key, dig(S.objs[r1]), "C16:same-seed-different-result")
                    S.result(key, dig(S.objs[r2]), "C16:same-seed-different-result")
        ss.append(S)
    # rare seeds: many seeds on tiny symmetric molecules; the results that look wrong to the driver, and a sample of the others, are logged
    from tucan.io import graph_from_tucan
    swept = 0
    tiny = ["H2O/(1-3)(2-3)", "H4/(1-2)(3-4)", "H3N/(1-4)(2-4)(3-4)", "CH4/(1-5)(2-5)(3-5)(4-5)", "Ar3/", "CaCl2/", "H2O2/(1-3)(2-4)(3-4)",
            "ClH/(1-2)", "ClNa/", "C3/(1-2)(1-3)(2-3)", "HO/(1-2)"]
    for si, s in enumerate(tiny + tiny[-4:] + tiny[:3]):
        try:
            g = graph_from_tucan(s)
        except Exception:
            continue
        if si >= len(tiny):
            # the same molecule stored with its atoms in another order than their labels (as canonical graphs are)
            order = list(g.nodes)[1:] + list(g.nodes)[:1]
            h = nx.Graph()
            h.add_nodes_from((a, dict(g.nodes[a])) for a in order)
            h.add_edges_from((a, b, dict(d)) for a, b, d in g.edges(data=True))
            g = h
        S = Session(f"permsweep-{si}-" + s)
        o = S.input(g)
        enforce = g.number_of_edges() > 1 and nx.density(g) != 1
        nseeds = 1500 if tier == "quick" else 9000
        for j in range(nseeds):
            sd = j / 8192.0
            try:
                res = record.guarded(lambda: record.tgu.permute_molecule(S.objs[o], random_seed=sd), 20)
            except BaseException:  # noqa
                S.permute(o, sd)
                break
            swept += 1
            suspicious = (enforce and set(map(frozenset, res.edges)) == set(map(frozenset, S.objs[o].edges))) or list(res.nodes) != sorted(res.nodes) \
                or res.number_of_nodes() != g.number_of_nodes()
            if suspicious or j % 300 == 0:
                S.permute(o, sd)
        ss.append(S)
    # label sets other than 0..n-1: a fragment cut out of a larger molecule, hydrogens removed in place, arbitrary integers
    for i in range(25 if tier == "quick" else 250):
        g = gen.random_molecule(rng, 9, density=0.35)
        keep = [a for a in g.nodes if rng.random() < 0.7]
        if len(keep) < 2:
            continue
        kind = i % 4
        if kind == 0:
            h = g.subgraph(keep).copy()
        elif kind == 1:
            h = g.copy(); h.remove_nodes_from([a for a in g.nodes if a not in keep])
        elif kind == 3:
            # small integers around zero, negative ones included: sets that look like 0..n-1 by their size or their largest member
            nn = g.number_of_nodes()
            lab = dict(zip(g.nodes, rng.sample(range(-nn, nn + 1), nn)))
            h = nx.relabel_nodes(g, lab, copy=True)
        else:
            lab = dict(zip(g.nodes, rng.sample(range(-50, 5000), g.number_of_nodes())))
            h = nx.relabel_nodes(g, lab, copy=True)
        for a, b in h.edges:
            h.edges[a, b].setdefault("bond_type", 1)
        S = Session(f"permlabels-{i}")
        o = S.input(h)
        for sd in rng.sample(seeds, 5):
            r1 = S.permute(o, sd)
            r2 = S.permute(o, sd)
            if r1 and r2:
                key = f"permute|{o}|{sd!r}"
                S.result(key, dig(S.objs[r1]), "C16:same-seed-different-result")
                S.result(key, dig(S.objs[r2]), "C16:same-seed-different-result")
            if r1 and rng.random() < 0.3:
                S.permute(r1, rng.choice(seeds))
        ss.append(S)
    # permute, move one bond of the argument in place (same atoms, same number of bonds), permute again: the helper answers for
    # the molecule the object now is
    for s, move in [("C4/(1-2)(2-3)(3-4)", ((2, 3), (1, 3))), ("C4/(1-2)(2-3)(3-4)", ((0, 1), (1, 3))), ("C5/(1-2)(2-3)(3-4)(4-5)", ((3, 4), (1, 4))),
                    ("C4O/(1-2)(2-3)(3-4)(4-5)", ((0, 1), (0, 2))), ("C6/(1-2)(2-3)(3-4)(4-5)(5-6)", ((4, 5), (2, 5)))]:
        try:
            g = graph_from_tucan(s)
        except Exception:
            continue
        S = Session(f"permedit-{s}-{move}")
        o = S.input(g)
        for j in range(6):
            S.permute(o, j / 7.0)
        live = S.objs[o]
        (a, b), (x, y) = move
        if not live.has_edge(a, b) or live.has_edge(x, y):
            continue
        d = dict(live.edges[a, b])
        live.remove_edge(a, b); live.add_edge(x, y, **d)
        S.ev.append({"op": "mutate", "obj": o, "g": record.project(live), "newcls": 980000 + o})
        for j in range(200 if tier == "quick" else 1500):
            sd = j / 1024.0
            try:
                res = record.guarded(lambda: record.tgu.permute_molecule(live, random_seed=sd), 20)
            except BaseException:  # noqa
                S.permute(o, sd)
                break
            swept += 1
            if set(map(frozenset, res.edges)) == set(map(frozenset, live.edges)) or list(res.nodes) != sorted(res.nodes) or j % 50 == 0:
                S.permute(o, sd)
        ss.append(S)
    out.extra["seeds_swept_on_tiny_symmetric_molecules"] = swept
    count_sessions(out, ss, "c16")
    validate_sessions(out, ss, "C16:", rl=0)
    out.extra["rule"] = RULE + "; C16 sessions call permute_molecule with 15 seeds on reader graphs and on canonical graphs, twice per seed with other uses of the global generator in between"
    out.assumptions += ["the renaming is read off unique tags and applied by the specification; determinism is a registry keyed by (object, seed)"]


# ---------------------------------------------------------------------------------------------- C14
def thr_cfg(T, ops, scratch, part, parser, n, graph):
    return (f"SPECIFICATION Spec\nCONSTANTS T = {T}\n  OpOf <- {ops}\n  ScratchOn = \"{scratch}\" PartOn = \"{part}\" ParserState = \"{parser}\"\n"
            f"  N = {n} AdjC <- Adj{graph} Col <- Col{graph}\nINVARIANT NoCrash\nINVARIANT SameAsSequential\nCHECK_DEADLOCK FALSE\n")


def c14_workload(rng, tier):
    items = []
    files = sorted(glob.glob(os.path.join(gen.REPO, "tests/molfiles/*/*.mol")))
    rng.shuffle(files)
    texts = []
    # unsymmetrical chains: dozens of refinement rounds, so that calls on a SHARED object overlap for long
    for nheavy in (60, 90):
        atoms = [dict(sym="C", chg=0, rad=0, mass=0, x=str(i), y="0", z="0") for i in range(nheavy)] + [dict(sym="Cl", chg=0, rad=0, mass=0, x="-1", y="0", z="0")]
        texts.append("\n".join(textgen.render_v3000({"atoms": atoms, "bonds": [(i, i + 1, 1) for i in range(nheavy)]}, rng,
                                                     opts={"star": False, "cont": 0, "extras": False, "trail": False, "header": False})[0]))
    for f in files[: (10 if tier == "quick" else 80)]:
        t = open(f).read()
        if len(t.splitlines()) < 150:
            texts.append(t)
    for i in range(14 if tier == "quick" else 120):
        M = textgen.abstract_molecule(rng, 7, coords=["0", "1.5", "-2.25"])
        for a in M["atoms"]:
            if rng.random() < 0.3:
                a["mass"], a["rad"] = rng.choice([2, 13, 18]) if a["sym"] != "H" else 2, rng.choice([1, 2])   # both attributes on one atom
        lines, _ = (textgen.render_v2000 if rng.random() < 0.3 and textgen.fits_v2000(M) else textgen.render_v3000)(M, rng)
        texts.append("\n".join(lines))
    # multi-attachment bonds whose real atom is listed before the endpoint atoms (bond order of the written file)
    for k in (5, 6, 8):
        hub = ["", "  SPEC", "", "  0  0  0     0  0            999 V3000", "M  V30 BEGIN CTAB", f"M  V30 COUNTS {k + 2} 1 0 0 0", "M  V30 BEGIN ATOM", "M  V30 1 Fe 0 0 0 0"]
        hub += [f"M  V30 {i + 2} C {i} 1 0 0" for i in range(k)] + [f"M  V30 {k + 2} * 0 0 0 0", "M  V30 END ATOM", "M  V30 BEGIN BOND",
                f"M  V30 1 9 1 {k + 2} ENDPTS=({k} " + " ".join(str(i + 2) for i in rng.sample(range(k), k)) + ") ATTACH=ALL", "M  V30 END BOND", "M  V30 END CTAB", "M  END"]
        texts.append("\n".join(hub))
    # disconnected molecules (salts, hydrates): layouts of the writer
    texts.append("\n".join(textgen.render_v3000({"atoms": [dict(sym=s, chg=0, rad=0, mass=0, x="0", y="0", z="0") for s in ("Na", "Cl", "O", "H", "H")],
                                                 "bonds": [(2, 3, 1), (2, 4, 1)]}, rng, opts={"star": False})[0]))
    def v2(atom_lines, props=()):
        return "\n".join(["", "  SPEC", "", f"{len(atom_lines):3d}  0  0  0  0  0  0  0  0  0999 V2000"]
                         + [f"    0.0000    0.0000    0.0000 {s:<3} 0{c:3d}  0  0  0  0  0  0  0  0  0  0" for s, c in atom_lines] + list(props) + ["M  END"])
    for sym in ("D", "T"):
        for code in (1, 3, 4, 5, 7):
            texts.append(v2([(sym, code)]))                       # a charged / radical deuteron or triton
    for code in (1, 3, 4, 5, 7):
        texts.append(v2([("C", code), ("H", 0), ("H", 0), ("H", 0)]))
    texts.append(v2([("D", 0), ("O", 0)], ["M  ISO  1   2  18"]))
    big = "9" * 4401
    texts.append("\n".join(["", "  SPEC", "", "  0  0  0     0  0            999 V3000", "M  V30 BEGIN CTAB", "M  V30 COUNTS 1 0 0 0 0", "M  V30 BEGIN ATOM",
                            "M  V30 1 C 0 0 0 0 MASS=" + big, "M  V30 END ATOM", "M  V30 END CTAB", "M  END"]))
    for i in range(3 if tier == "quick" else 12):
        M = textgen.abstract_molecule(rng, 6, coords=["0", "1.5"])
        for a in M["atoms"]:
            a["rad"] = 0
        for j in range(2):
            lines, _ = textgen.render_v3000(M, rng, perm=gen.random_perm(rng, len(M["atoms"])), opts={"star": False})
            t = "\n".join(lines)
            items.append({"key": f"writecalccanon|{hashlib.sha1(t.encode()).hexdigest()[:12]}", "op": "writecalccanon", "arg": t})
    for i, t in enumerate(texts):
        for op in ("read", "pipeline", "write") + (("writecalc",) if i % 3 == 0 else ()):
            items.append({"key": f"{op}|{hashlib.sha1(t.encode()).hexdigest()[:12]}", "op": op, "arg": t})
    strings = ["CH4/(1-5)(2-5)(3-5)(4-5)", "H2O/(1-3)(2-3)/(2:mass=2)", "CH3/(1-4)(2-4)(3-4)/(4:mass=13,rad=2)", "CH3/(1-4)(2-4)(3-4)/(4:rad=2,mass=13)",
               "C2H6O/(1-7)(2-7)(3-7)(4-8)(5-8)(6-9)(7-8)(8-9)", "He2//(1:mass=3)", "C6H6/(1-7)(2-8)(3-9)(4-10)(5-11)(6-12)(7-8)(7-9)(8-10)(9-11)(10-12)(11-12)",
               "CH4/(1-5)(2-5)(3-5)(4-6)", "CH4/(1-5", "HC4/", "C2/(1-1)", "H2//(1:mass=2,mass=2)", "Xy/", "ClNa/(1-2)", "/", "C60/" + "".join(f"({i}-{i + 1})" for i in range(1, 60)),
               "C2/(1-" + "9" * 4401 + ")", "C//(1:mass=" + "7" * 4401 + ")", "(", "C2/(1-2))"]
    # more distinct valid strings than any small cache holds, cycled by the threads
    for k in range(2, 170 if tier == "quick" else 400):
        s = f"C{k}/" + "".join(f"({i}-{i + 1})" for i in range(1, min(k, 6)))
        items.append({"key": f"parse|{s[:40]}|many", "op": "parse", "arg": s})
    # rejected strings in the same cycle: several callers inside the parser's error path at the same time
    bad = [f"C{k}/(1-" for k in range(2, 14)] + [f"C{k}" for k in range(2, 10)] + [f"C{k}/(1-2))" for k in range(2, 8)] + \
          [f"H{k}C/" for k in range(2, 8)] + ["", "-/", "CH4", "C2/(1-2)/(", "C2//(1:mass=)", "C2/(1-3)", "C2/(0-1)", "C2/(2-2)"]
    for s in bad:
        items.append({"key": f"parse|{s[:40]}|bad|many", "op": "parse", "arg": s})
    # strings whose elements come late in the alphabet: the first calls of a fresh process (c14_worker.py: main_threads)
    for s in ["F6U/(1-7)(2-7)(3-7)(4-7)(5-7)(6-7)", "CH3Zr/(1-5)(2-5)(3-5)(4-5)", "O2Zr/(1-3)(2-3)", "Cl2Zn/(1-3)(2-3)", "Xe/", "HY/(1-2)", "C2H6W/(1-9)(2-9)(3-9)(4-8)(5-8)(6-8)(7-9)(7-8)",
              "OgTs/(1-2)", "H2Yb/(1-3)(2-3)", "C6H6/(1-7)(2-8)(3-9)(4-10)(5-11)(6-12)(7-8)(7-9)(8-10)(9-11)(10-12)(11-12)"]:
        items.append({"key": f"norm|{s[:40]}|first", "op": "norm", "arg": s})
    for s in strings:
        for op in ("parse", "norm", "writeparsed"):
            items.append({"key": f"{op}|{s[:40]}|{hashlib.sha1(s.encode()).hexdigest()[:8]}", "op": op, "arg": s})
    return items


def run_workers(items, configs):
    """configs: list of (hash seed, order seed) -> list of lists of {key, val}"""
    tmp = tempfile.mkdtemp(prefix="c14_")
    try:
        wl = os.path.join(tmp, "workload.json")
        json.dump(items, open(wl, "w"))
        procs = []
        for cfg in configs:
            hs, os_ = cfg[0], cfg[1]
            mode = cfg[2] if len(cfg) > 2 else ""
            env = dict(os.environ, PYTHONHASHSEED=str(abs(hs)))
            if mode == "logdebug":
                env["VERIF_LOGDEBUG"] = "1"             # the embedding application has switched logging to DEBUG
            flags = ["-O"] if hs < 0 else []          # a negative "seed" = an optimized interpreter (assert statements stripped)
            procs.append(subprocess.Popen(["/venv/bin/python", *flags, os.path.join(HERE, "c14_worker.py"), wl, str(os_), gen.REPO] + (["threads"] if mode == "threads" else []),
                                          stdout=subprocess.PIPE, stderr=subprocess.PIPE, text=True, env=env))
        outs = []
        for p in procs:
            o, e = p.communicate(timeout=1800)
            if p.returncode != 0:
                raise tlc.MachineryError("C14 worker failed: " + e[-800:])
            outs.append([json.loads(l) for l in o.splitlines() if l.startswith("{")])
        return outs
    finally:
        import shutil
        shutil.rmtree(tmp, ignore_errors=True)


def threaded_results(items, nthreads, rng, shared_objects=True):
    """free-running threads (tiny switch interval) over the same workload, in different orders; plus calls on SHARED graph objects"""
    from tucan.io import graph_from_molfile_text, graph_from_tucan, graph_to_molfile
    from tucan.canonicalization import canonicalize_molecule
    from tucan.serialization import serialize_molecule
    res = []
    lock = threading.Lock()
    barrier = threading.Barrier(nthreads)
    old = sys.getswitchinterval()
    sys.setswitchinterval(1e-6)
    shared = []
    if shared_objects:
        for it in items:
            if it["op"] == "pipeline" and len(shared) < 12:
                try:
                    g = graph_from_molfile_text(it["arg"])
                    k = canonicalize_molecule(g)
                    shared.append((it["key"], g, k))
                except Exception:
                    pass

    def worker(seed):
        r = random.Random(seed)
        order = list(range(len(items)))
        r.shuffle(order)
        mine = []
        for i in order:
            mine.append({"key": items[i]["key"], "val": c14_worker.run_item(items[i])})
        # all threads together: the many small strings again and again, each thread in its own order (re-reads while other
        # threads bring in new ones)
        many = [i for i in order if items[i]["key"].endswith("|many")]
        try:
            barrier.wait(timeout=120)
        except Exception:
            pass
        for _ in range(6):
            r.shuffle(many)
            for i in many:
                mine.append({"key": items[i]["key"], "val": c14_worker.run_item(items[i])})
        try:
            barrier.wait(timeout=120)          # all callers enter the shared-object phase together
        except Exception:
            pass
        for _ in range(5):
            for key, g, k in r.sample(shared, len(shared)):
                try:
                    mine.append({"key": "sh-canon|" + key, "val": c14_worker.dig(canonicalize_molecule(g))})
                    mine.append({"key": "sh-ser|" + key, "val": serialize_molecule(k)})
                    mine.append({"key": "sh-write|" + key, "val": c14_worker.body(graph_to_molfile(k))})
                except BaseException as ex:  # noqa
                    mine.append({"key": "sh-exc|" + key, "val": "EXC:" + type(ex).__name__})
        with lock:
            res.append(mine)
    try:
        ts = [threading.Thread(target=worker, args=(rng.random(),), daemon=True) for _ in range(nthreads)]
        for t in ts:
            t.start()
        deadline = time.time() + (150 if len(items) < 400 else 900)
        for t in ts:
            t.join(max(1.0, deadline - time.time()))
        if any(t.is_alive() for t in ts):
            # callers that never return (a lock left held, a wait on another caller): reported, the threads are abandoned
            res.append([{"key": "sh-exc|blocked", "val": "EXC:concurrent-callers-did-not-return"}])
    finally:
        sys.setswitchinterval(old)
    # the sequential answers for the shared-object calls
    seq = []
    for key, g, k in shared:
        seq.append({"key": "sh-canon|" + key, "val": c14_worker.dig(canonicalize_molecule(g))})
        seq.append({"key": "sh-ser|" + key, "val": serialize_molecule(k)})
        seq.append({"key": "sh-write|" + key, "val": c14_worker.body(graph_to_molfile(k))})
        seq.append({"key": "sh-exc|" + key, "val": "none"})
    return [seq] + res


def model_schedules(out, opsname, graph, n, num, seed):
    """behaviours of the thread model (TLC -simulate on ThreadsSim), as sequences of thread ids"""
    cfg = (f"SPECIFICATION SimSpec\nCONSTANTS T = {{1, 2}}\n  OpOf <- {opsname}\n  ScratchOn = \"local\" PartOn = \"copy\" ParserState = \"fresh\"\n"
           f"  N = {n} AdjC <- Adj{graph} Col <- Col{graph}\nINVARIANT NoCrash\nINVARIANT SameAsSequential\nCONSTRAINT EmitSchedule\nCHECK_DEADLOCK FALSE\n")
    r = tlc.run("ThreadsSim", cfg, workers=1, simulate=f"num={num}", depth=200, seed=seed, timeout=600)
    if r.rc != 0:
        raise tlc.MachineryError("ThreadsSim failed:\n" + r.error_text(1500))
    out.states += r.distinct
    out.transitions += r.generated
    seen, hs = set(), []
    for p in r.printed:
        if isinstance(p, dict) and "sched" in p and tuple(p["sched"]) not in seen:
            seen.add(tuple(p["sched"])); hs.append(p["sched"])
    return hs


def replay_model_schedule(hist, fns, totals):
    """run the two real operations under the interleaving of one model behaviour: every model step of thread t stands for
    totals[t] / (number of t's model steps) line events of the real call"""
    per = {t: max(1, totals[t - 1] // max(1, hist.count(t))) for t in (1, 2)}
    plan, i = [], 0
    while i < len(hist):
        j = i
        while j < len(hist) and hist[j] == hist[i]:
            j += 1
        plan.append((hist[i] - 1, per[hist[i]] * (j - i)))
        i = j
    if plan:
        plan[-1] = (plan[-1][0], None)
    return sched.Sched(plan).run(fns)[0]


def scheduled_results(rng, tier, outcome=None):
    """deterministic schedules of two operations on SHARED objects: all one-preemption schedules at line granularity, and the
    interleavings TLC generates from the thread model"""
    from tucan.io import graph_from_tucan
    from tucan.canonicalization import canonicalize_molecule
    from tucan.serialization import serialize_molecule
    out = []
    strings = ["H2O/(1-3)(2-3)", "CH4O/(1-5)(2-5)(3-5)(4-6)(5-6)", "C2H2/(1-3)(2-4)(3-4)"]
    for s in strings[: (2 if tier == "quick" else 3)]:
        g = graph_from_tucan(s)
        k = canonicalize_molecule(g)
        ops = {"ser": lambda: serialize_molecule(k), "canon": lambda: c14_worker.dig(canonicalize_molecule(g)), "parse": lambda: c14_worker.dig(graph_from_tucan(s)),
               "badparse": lambda: c14_worker.run_item({"op": "parse", "arg": s[:-1]})}
        seq = {name: f() for name, f in ops.items()}
        pairs = [("ser", "ser"), ("ser", "canon"), ("canon", "canon"), ("canon", "ser")] + ([("parse", "badparse")] if tier == "thorough" else [])
        for a, b in pairs:
            res, steps = sched.Sched([(0, None)]).run([ops[a]])
            total = steps.get(0, 0)
            points = list(range(1, total))
            if tier == "quick" and len(points) > 40:
                points = sorted(rng.sample(points, 40))
            for kpt in points:
                res, _ = sched.Sched([(0, kpt), (1, None), (0, None)]).run([ops[a], ops[b]])
                for name, r in zip((a, b), res):
                    val = r[1] if r[0] == "ok" else "EXC:" + r[1]
                    out.append({"key": f"sched|{s}|{name}", "val": val, "sched": [a, b, kpt]})
            for name in (a, b):
                out.append({"key": f"sched|{s}|{name}", "val": seq[name], "sched": "sequential"})
        # spec -> code: interleavings generated by TLC from the thread model
        model = {"H2O/(1-3)(2-3)": ("Water", 3), "CH4O/(1-5)(2-5)(3-5)(4-6)(5-6)": ("Methanol", 6)}.get(s)
        if model and outcome is not None:
            for opsname, (a, b) in (("Ops2", ("ser", "ser")), ("OpsSerCanon", ("ser", "canon")), ("OpsCanon2", ("canon", "canon"))):
                hists = model_schedules(outcome, opsname, model[0], model[1], 40 if tier == "quick" else 400, rng.randrange(10**6))
                totals = [sched.Sched([(0, None)]).run([ops[x]])[1].get(0, 1) for x in (a, b)]
                for h in hists[: (12 if tier == "quick" else 150)]:
                    res = replay_model_schedule(h, [ops[a], ops[b]], totals)
                    for name, r in zip((a, b), res):
                        val = r[1] if r[0] == "ok" else "EXC:" + r[1]
                        out.append({"key": f"sched|{s}|{name}", "val": val, "sched": ["tlc", opsname, h]})
                outcome.extra["tlc_generated_schedules_replayed"] = outcome.extra.get("tlc_generated_schedules_replayed", 0) + min(len(hists), 12 if tier == "quick" else 150)
    return out


@check("C14")
def c14(out, tier, rng):
    out.design("MC_Threads", thr_cfg("{1, 2}", "Ops2", "local", "copy", "fresh", 3, "Water"), label="Threads 2x serialize (water)")
    out.design("MC_Threads", thr_cfg("{1, 2, 3}", "OpsMixed3", "local", "copy", "fresh", 6, "Methanol"), label="Threads serialize+canonicalize+parse (methanol)")
    out.design("MC_Threads", thr_cfg("{1, 2}", "OpsCanon2", "local", "copy", "fresh", 6, "Chain"), label="Threads 2x canonicalize (chain)")
    if tier == "thorough":
        out.design("MC_Threads", thr_cfg("{1, 2, 3}", "OpsSer3", "local", "copy", "fresh", 6, "Methanol"), label="Threads 3x serialize (methanol)")
        out.design("MC_Threads", thr_cfg("{1, 2}", "Ops2", "argument", "copy", "fresh", 3, "Water"), must_fail="NoCrash", label="control: flags on the argument")
        out.design("MC_Threads", thr_cfg("{1, 2}", "OpsCanon2", "local", "argument", "fresh", 6, "Chain"), must_fail="SameAsSequential", label="control: partition written in place")
        out.design("MC_Threads", thr_cfg("{1, 2}", "OpsParse2", "local", "copy", "shared", 3, "Water"), must_fail="SameAsSequential", label="control: shared parser state")
    items = c14_workload(rng, tier)
    configs = [(hs, rng.randrange(10**6)) for hs in ([0, 1, 2, 3, 4, 5, 6, -7] if tier == "quick" else list(range(0, 30)) + [-30, -31])]
    configs += [(1, rng.randrange(10**6), "logdebug")]
    base = rng.randrange(10**6) * 5
    configs += [(k % 3, base + k, "threads") for k in range(15 if tier == "quick" else 60)]     # fresh processes whose first calls of one operation (order seed mod 5) are concurrent
    runs = run_workers(items, configs)
    sched_res = scheduled_results(rng, tier, out)
    runs += threaded_results(items, 4 if tier == "quick" else 8, rng)
    # after concurrent use the operations must still answer (a lock left behind by a finished thread would block them for good)
    try:
        probe = record.guarded(lambda: [c14_worker.run_item({"op": "norm", "arg": "CH4/(1-5)(2-5)(3-5)(4-5)"}), c14_worker.run_item({"op": "parse", "arg": "C2/(1-"})], 30)
        runs.append([{"key": "sh-exc|after-threads", "val": "none" if probe == ["CH4/(1-5)(2-5)(3-5)(4-5)", "EXC:TucanParserException"] else "EXC:" + str(probe)}])
    except record.CallTimeout:
        runs.append([{"key": "sh-exc|after-threads", "val": "EXC:public-operation-blocks-after-concurrent-use"}])
    # one registry session per key group
    groups = {}
    for ri, run in enumerate(runs):
        for rec in run:
            groups.setdefault(hashlib.sha1(rec["key"].encode()).hexdigest()[:1], []).append((rec["key"], rec["val"]))
    ss = []
    for gk, recs in groups.items():
        S = Session("reg-" + gk)
        for key, val in recs:
            clause = "C14:result-differs-between-runs(" + key.split("|")[0] + ")"
            if key.startswith("sh-exc") and val != "none":
                S.ev.append({"op": "raised", "call": key, "clause": "C14:concurrent-call-on-a-shared-object-raised-" + val})
            elif not key.startswith("sh-exc"):
                S.result(key, val, clause)
        ss.append(S)
    S = Session("schedules")
    for rec in sorted(sched_res, key=lambda r: (r["key"], r["sched"] != "sequential")):
        S.result(rec["key"], rec["val"], "C14:result-depends-on-the-thread-schedule(" + rec["key"].split("|")[-1] + ")")
    ss.append(S)
    out.evaluations = sum(len(r) for r in runs) + len(sched_res)
    for it in items:
        out.count(("c14", it["key"]), nontrivial=True)
    out.extra.update({"processes": len(configs), "hash_seeds": [abs(c[0]) for c in configs], "optimized_interpreters": sum(1 for c in configs if c[0] < 0), "workload_items": len(items),
                      "schedules_run": len([r for r in sched_res if r["sched"] != "sequential"])})
    out.sample({"workload_keys": [it["key"] for it in items[:5]], "schedule": sched_res[0]["sched"] if sched_res else None})
    validate_sessions(out, ss, "C14:", rl=0)
    out.extra["rule"] = ("cases = results of the public operations over one workload (molfile texts incl. atoms with both attributes and disconnected "
                         "molecules; accepted and rejected strings) collected from processes with different PYTHONHASHSEED and shuffled call orders (every "
                         "item twice), from free-running threads (private and shared objects), and from deterministic one-preemption schedules; TLC "
                         "validates the merged log against the registry 'same operation, same input, same result'; distinct = workload items")
    out.assumptions += ["ANTLR internals are a black box: their thread-safety is observed (free-running threads), not modelled beyond 'a fresh lexer/parser/listener per call'",
                        "PYTHONHASHSEED is varied, not modelled: the specification's content is that no action reads it"]


# ---------------------------------------------------------------------------------------------- C15
def families(n, rng):
    """the shapes the statement names, as TUCAN strings of about n atoms (built without the library)"""
    def chain(k):
        return f"C{k}/" + "".join(f"({i}-{i + 1})" for i in range(1, k))
    def ring(k):
        return f"C{k}/" + "".join(f"({i}-{i + 1})" for i in range(1, k)) + f"(1-{k})"
    def comb(k):           # backbone of k carbons, one hydrogen on each
        return f"C{k}H{k}/" + "".join(f"({i}-{k + i})" for i in range(1, k + 1)) + "".join(f"({k + i}-{k + i + 1})" for i in range(1, k))
    def ladder(k):
        return f"C{2 * k}/" + "".join(f"({i}-{i + 1})" for i in range(1, k)) + "".join(f"({k + i}-{k + i + 1})" for i in range(1, k)) + "".join(f"({i}-{k + i})" for i in range(1, k + 1))
    def star(k):
        return f"CH{k - 1}/" + "".join(f"({i}-{k})" for i in range(1, k))
    def cstar(k):          # an all-carbon star: the hub and its leaves are one element
        return f"C{k}/" + "".join(f"(1-{i})" for i in range(2, k + 1))
    def wheel(k):          # hub bonded to every atom of a ring
        return f"C{k}/" + "".join(f"(1-{i})" for i in range(2, k + 1)) + "".join(f"({i}-{i + 1})" for i in range(2, k)) + f"(2-{k})"
    def hubchain(k):       # a long chain with one atom carrying ten extra substituents of its own element
        h = k // 2
        return f"C{k + 10}/" + "".join(f"({i}-{i + 1})" for i in range(1, k)) + "".join(f"({h}-{k + j})" for j in range(1, 11))
    def isolated(k):
        return f"Ar{k}/"
    def waters(k):         # k components H2O: H's are 1..2k, O's 2k+1..3k
        return f"H{2 * k}O{k}/" + "".join(f"({2 * i - 1}-{2 * k + i})({2 * i}-{2 * k + i})" for i in range(1, k + 1))
    def ions(k):
        return f"Cl{k}Na{k}/"
    def peptide(k):        # N-C-C(=O) repeating backbone: atoms by Z: C (2k), N (k), O (k)
        s = f"C{2 * k}N{k}O{k}/"
        t = []
        for i in range(1, k + 1):
            ca, c, nn, o = 2 * i - 1, 2 * i, 2 * k + i, 3 * k + i
            t += [(ca, c), (ca, nn), (c, o)]
            if i < k:
                t.append((c, 2 * k + i + 1))
        return s + "".join(f"({min(a, b)}-{max(a, b)})" for a, b in t)
    def complete(k):
        return f"C{k}/" + "".join(f"({i}-{j})" for i in range(1, k + 1) for j in range(i + 1, k + 1))
    kn = min(n, 90)          # complete graphs: the number of bonds, not of atoms, is what grows
    return {"chain": chain(n), "ring": ring(n), "comb": comb(n // 2), "ladder": ladder(n // 2), "star": star(n), "isolated": isolated(n),
            "waters": waters(n // 3), "ions": ions(n // 2), "peptide": peptide(n // 4), "complete": complete(kn), "cstar": cstar(min(n, 400)), "wheel": wheel(min(n, 300)), "hubchain": hubchain(n)}


def run_pipeline_depth(s, limit=None):
    """parse -> canonicalize -> serialize -> parse under the given recursion limit; returns (outcome, max frame depth seen)"""
    from tucan.io import graph_from_tucan
    from tucan.canonicalization import canonicalize_molecule
    from tucan.serialization import serialize_molecule
    depth = {"max": 0, "cur": 0}

    def prof(frame, event, arg):
        if event == "call":
            depth["cur"] += 1
            if depth["cur"] > depth["max"]:
                depth["max"] = depth["cur"]
        elif event == "return":
            depth["cur"] -= 1
    old = sys.getrecursionlimit()
    res = {}

    def body():
        if limit:
            sys.setrecursionlimit(limit)
        sys.setprofile(prof)
        try:
            g = graph_from_tucan(s)
            k = canonicalize_molecule(g)
            t = serialize_molecule(k)
            p = graph_from_tucan(t)
            res["out"] = ("ok", g.number_of_nodes(), p.number_of_nodes(), g.number_of_edges(), p.number_of_edges())
        except BaseException as ex:  # noqa
            res["out"] = ("exc", type(ex).__name__)
        finally:
            sys.setprofile(None)
    th = threading.Thread(target=body)      # a fresh thread: a clean, shallow stack to measure from
    th.start(); th.join()
    sys.setrecursionlimit(old)
    return res.get("out", ("exc", "NoResult")), depth["max"]


@check("C15")
def c15(out, tier, rng):
    def size_cfg(n, lim):
        return (f"SPECIFICATION SSpec\nCONSTANTS N = {n} StackLimit {'<- Unbounded' if lim is None else '= ' + str(lim)}\n"
                + ("INVARIANT RoundsBounded\nINVARIANT NoCrash\nINVARIANT BfsComplete\nINVARIANT BfsWellBehaved\nINVARIANT StepMachineIsTheFunction\nPROPERTY RoundsRefine\n" if lim is None else "INVARIANT NoCrash\n") + "CHECK_DEADLOCK FALSE\n")
    out.design("Size", size_cfg(5, None), expect_depth=4, label="Size N=5 (all 1024 graphs), iterative")
    if tier == "thorough":
        out.design("Size", size_cfg(6, None), expect_depth=4, label="Size N=6 (all 32768 graphs), iterative", timeout=7200)
        out.design("Size", size_cfg(5, 2), must_fail="NoCrash", label="control: one stack frame per round, room for 2")
    S = Session("sizes")
    sizes_small = list(range(1, 41)) if tier == "thorough" else [1, 2, 3, 5, 8, 13, 21, 34]
    # (1) small sizes: full validation of the pipeline by TLC (partition rounds, strings)
    ss = []
    for n in sizes_small:
        fam = families(max(n, 4), rng)
        name = rng.choice(["chain", "ring", "comb", "ladder", "star", "waters", "peptide"]) if n >= 4 else "isolated"
        s = fam[name] if n >= 4 else f"C{n}/" + ("(1-2)" if n == 2 else "(1-2)(2-3)" if n == 3 else "")
        T = Session(f"small-{name}-{n}")
        p = T.parse(s)
        if p:
            c = T.canon(p)
            if c:
                t = T.ser(c)
                if t:
                    T.parse(t, of=c)
        ss.append(T)
    for name, g in drivers.special_molecules() + [(f"lab{i}", gen.random_molecule(rng, 9, label_p=0.5)) for i in range(40 if tier == "quick" else 400)]:
        T = Session("c15-" + name)
        o = T.input(g)
        for x in [o] + [T.derive(o, record.relabel(T.objs[o], p, rng), p) for p in [gen.random_perm(rng, g.number_of_nodes())]]:
            c = T.canon(x)
            if c:
                t = T.ser(c)
                if t:
                    T.parse(t, of=c)
        ss.append(T)
    # dense but not complete: a clique-like core with a few terminal atoms, complete graphs with bonds missing, complete bipartite
    # graphs, dense random graphs (the number of pending atoms of a breadth-first walk is largest here)
    dense = []
    for k in ((5, 7, 8, 10, 12) if tier == "quick" else range(4, 17)):
        core = [(a, b, 1) for a, b in itertools.combinations(range(k), 2)]
        for pend in ((2, 3) if tier == "quick" else (1, 2, 3, 5)):
            hosts = rng.sample(range(k), min(pend, k))
            dense.append((f"clique{k}+{pend}", gen.mol([("C", 0, 0, 0)] * k + [("H", 0, 0, 0)] * len(hosts), core + [(h, k + j, 1) for j, h in enumerate(hosts)])))
        drop = set(rng.sample(range(len(core)), rng.randint(1, 3)))
        dense.append((f"clique{k}-minus", gen.mol([("C", 0, 0, 0)] * k, [e for j, e in enumerate(core) if j not in drop])))
        a = max(2, k // 2)
        dense.append((f"bipartite{a}x{k - a + 1}", gen.mol([("C", 0, 0, 0)] * a + [("N", 0, 0, 0)] * (k - a + 1), [(x, a + y, 1) for x in range(a) for y in range(k - a + 1)])))
    for i in range(10 if tier == "quick" else 100):
        n = rng.randint(7, 14)
        dense.append((f"dense{i}", gen.mol([(rng.choice(["C", "C", "N", "B"]), 0, 0, 0) for _ in range(n)],
                                           [(a, b, 1) for a, b in itertools.combinations(range(n), 2) if rng.random() < rng.choice([0.6, 0.8, 0.9])])))
    for name, g in dense:
        T = Session("c15-" + name)
        o = T.input(g)
        for x in [o, T.derive(o, *(lambda q: (record.relabel(T.objs[o], q, rng), q))(gen.random_perm(rng, g.number_of_nodes())))]:
            c = T.canon(x)
            if c:
                t = T.ser(c)
                if t:
                    T.parse(t, of=c)
        ss.append(T)
    # every graph a user can hold is in the domain: partitioned graphs handed out by the library, renumbered canonical graphs
    ss += library_refined_sessions(rng, tier, n=14)
    # (2) growth probe: does the depth of the interpreter's stack grow with the size of the molecule?
    probe = {}
    n1, n2 = (120, 360) if tier == "quick" else (200, 800)
    for name in families(n1, rng):
        (o1, d1), (o2, d2) = run_pipeline_depth(families(n1, rng)[name]), run_pipeline_depth(families(n2, rng)[name])
        probe[name] = {"n": [n1, n2], "depth": [d1, d2], "outcome": [o1[0], o2[0]]}
        for o, n in ((o1, n1), (o2, n2)):
            ev = {"op": "completed", "call": "pipeline", "family": name, "n": n} if o[0] == "ok" else \
                 {"op": "raised", "call": "pipeline", "clause": f"C15:pipeline-failed-on-{name}-n{n}-" + o[1]}
            S.ev.append(ev)
        slope = (d2 - d1) / max(1, (n2 - n1))
        if slope > 0.02 and o2[0] == "ok":
            # depth grows with size: predict where the default limit is hit and run that size for real
            limit = sys.getrecursionlimit()
            need = int(n2 + (limit - d2) / slope * 1.15) + 50
            need = min(need, 9000)
            probe[name]["predicted_failing_size"] = need
            o3, d3 = run_pipeline_depth(families(need, rng)[name])
            probe[name]["at_predicted"] = [o3[0], d3]
            if o3[0] != "ok":
                S.ev.append({"op": "raised", "call": "pipeline", "clause": f"C15:pipeline-failed-on-{name}-n{need}-{o3[1]}(stack-depth-grows-with-size)"})
            else:
                S.ev.append({"op": "completed", "call": "pipeline", "family": name, "n": need})
    out.extra["stack_depth_probe"] = probe
    # (3) real sizes
    real = [("chain", 700), ("ring", 1500), ("waters", 1500), ("isolated", 1500), ("ions", 1200), ("comb", 500), ("complete", 90), ("star", 700)] if tier == "quick" else \
           [("chain", 2200), ("chain", 4000), ("ring", 2400), ("ring", 5000), ("comb", 2200), ("ladder", 2000), ("peptide", 2400), ("star", 3000),
            ("waters", 4500), ("isolated", 5000), ("ions", 4000), ("complete", 90), ("star", 3000)]
    for name, n in real:
        t0 = time.time()
        o, d = run_pipeline_depth(families(n, rng)[name])
        out.extra.setdefault("real_sizes", []).append({"family": name, "n": n, "outcome": o[0], "depth": d, "wall_s": round(time.time() - t0, 1)})
        if o[0] == "ok":
            S.ev.append({"op": "completed", "call": "pipeline", "family": name, "n": n})
        else:
            S.ev.append({"op": "raised", "call": "pipeline", "clause": f"C15:pipeline-failed-on-{name}-n{n}-" + o[1]})
    ss.append(S)
    for e in S.ev:
        out.count(("c15", e.get("family"), e.get("n"), e.get("clause")), nontrivial=True)
    out.evaluations += len(S.ev)
    v = validate_sessions(out, ss, "C15:", rl=40)
    out.extra["rule"] = ("cases = molecules of the named families (chains, rings, combs, ladders, stars, peptide-like backbones, thousands of components, "
                         "bond-less atoms, complete graphs): small sizes validated in full by TLC, real sizes validated at event level (normal return "
                         "with unchanged atom / bond counts vs. exception); a measured growth of the interpreter's stack depth with the size is followed "
                         "up by running the predicted failing size for real")
    out.level = "model_checking"
    out.assumptions += ["beyond the sizes TLC validates in full this is exploration of the real code; the bounded model (Size.tla) decides the scaled-down claim only"]
